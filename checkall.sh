#!/bin/sh
# runs every claimed check (quick tier) and prints one summary line each
cd "$(dirname "$0")"
for id in $(python3 -c "import json;print(' '.join(c['property_id'] for c in json.load(open('MANIFEST.json'))['checks']))"); do
  ./check $id "$@" > /tmp/checkall_$id.out 2>&1; rc=$?
  echo "rc=$rc $(grep -v KNOWN /tmp/checkall_$id.out | tail -1 | cut -c1-170)"
done
