#!/bin/sh
# usage: selftest/seedtest.sh <patch.diff> <Cxx> : applies the patch to /repo, runs the check in a scratch root, undoes it
p="$1"; id="$2"
cd "$(dirname "$0")/.."
if ! git -C /repo apply --check "$p" 2>/dev/null; then echo "SKIP (does not apply): $p"; exit 2; fi
git -C /repo apply "$p"
out=$(./selftest/check_in_scratch.sh "$id" 2>&1)
git -C /repo apply -R "$p"
if echo "$out" | grep -q "^VIOLATION property=$id"; then
  echo "CAUGHT by $id: $(echo "$out" | grep '^VIOLATION' | sed 's/replay=[^ ]* //' | head -3 | tr '\n' ';' | cut -c1-330)"
else
  echo "MISSED by $id: $(echo "$out" | tail -1 | cut -c1-160)"
fi
