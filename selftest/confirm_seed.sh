#!/bin/sh
# confirm_seed.sh <seed dir containing patch.diff and demo_test.go> : verifies in a scratch worktree of /repo that the
# change builds, passes the suite, and that the demo fails with it and passes without it. Prints one line.
d="$1"
export GOFLAGS=-mod=mod GOPROXY=off GOSUMDB=off GOTOOLCHAIN=local
wt=$(mktemp -d /tmp/confirm_XXXX)
git -C /repo worktree add -q --detach "$wt" HEAD || exit 2
cd "$wt"
res=""
if ! git apply "$d/patch.diff"; then res="patch-does-not-apply"; fi
if [ -z "$res" ] && ! go build ./... >/dev/null 2>&1; then res="does-not-build"; fi
if [ -z "$res" ] && ! go test -vet=off -count=1 ./... >/dev/null 2>&1; then res="suite-fails-with-change"; fi
if [ -z "$res" ]; then
  cp "$d/demo_test.go" ./zz_demo_test.go
  if go test -vet=off -count=1 -run 'C[0-9][0-9]|Demo|Seed|Budget|Reuse|Patch|Promot|Mixed' -timeout 120s . >/dev/null 2>&1; then res="demo-passes-with-change"; fi
  git apply -R "$d/patch.diff"
  if [ -z "$res" ] && ! go test -vet=off -count=1 -run 'C[0-9][0-9]|Demo|Seed|Budget|Reuse|Patch|Promot|Mixed' -timeout 120s . >/dev/null 2>&1; then res="demo-fails-without-change"; fi
fi
[ -z "$res" ] && res="CONFIRMED"
cd /; git -C /repo worktree remove --force "$wt"
echo "$res $d"
