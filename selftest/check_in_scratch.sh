#!/bin/sh
# runs a check with evidence/replays/baseline redirected to a scratch root so that a self-test never
# overwrites the committed evidence; baseline and known findings are the committed ones
id="$1"
root=${VERIF_ROOT:-/tmp/verif-selftest-root}
rm -rf "$root"; mkdir -p "$root"
cp -r /verif/baseline "$root/" 2>/dev/null
cp /verif/known_findings.txt "$root/" 2>/dev/null
VERIF_ROOT="$root" /verif/bin/verif-engine check "$id" --tier quick
rc=$?
rm -rf "$root"
exit $rc
