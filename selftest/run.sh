#!/bin/sh
# must-fail corpus: every mutant compiles, passes the repository's tests, and must make its property's check
# print a VIOLATION. Usage: selftest/run.sh [pattern]   (applies each patch to /repo's working tree and undoes it)
cd "$(dirname "$0")/.."
export GOFLAGS=-mod=mod GOPROXY=off GOSUMDB=off GOTOOLCHAIN=local
fail=0
for p in selftest/mutants/*${1}*.patch; do
  id=$(basename "$p" | cut -d_ -f1)
  if ! git -C /repo apply --check "$PWD/$p" 2>/dev/null; then echo "SKIP $p (does not apply)"; continue; fi
  git -C /repo apply "$PWD/$p"
  if ! (cd /repo && go build ./... >/dev/null 2>&1); then echo "BAD-MUTANT $p (does not build)"; git -C /repo apply -R "$PWD/$p"; fail=1; continue; fi
  if [ -z "$SKIP_TESTS" ] && ! (cd /repo && go test -vet=off -count=1 ./... >/dev/null 2>&1); then echo "BAD-MUTANT $p (fails the repository tests)"; git -C /repo apply -R "$PWD/$p"; fail=1; continue; fi
  out=$(VERIF_ROOT=/tmp/verif-selftest-root ./selftest/check_in_scratch.sh "$id" 2>&1)
  git -C /repo apply -R "$PWD/$p"
  if echo "$out" | grep -q "^VIOLATION property=$id"; then
    echo "CAUGHT $p: $(echo "$out" | grep '^VIOLATION' | head -2 | sed 's/replay=[^ ]* //' | tr '\n' ';' | cut -c1-260)"
  else
    echo "MISSED $p: $(echo "$out" | tail -1 | cut -c1-200)"; fail=1
  fi
done
exit $fail
