#!/bin/sh
# import_seed.sh <Cxx> <k> [check ids...] : copies /tmp/seed_<Cxx>_out/<k> to seeded/<Cxx>_<k>, confirms it in a scratch
# worktree, and runs the named checks (default: the property's own) with the change applied to /repo's working tree.
id="$1"; k="$2"; shift 2
checks="${*:-$id}"
cd "$(dirname "$0")/.."
d="seeded/${id}_$k"
n=$k
while [ -e "$d" ] && ! cmp -s "$d/patch.diff" "/tmp/seed_${id}_out/$k/patch.diff"; do n=$((n+2)); d="seeded/${id}_$n"; done
mkdir -p "$d"
cp /tmp/seed_${id}_out/$k/patch.diff /tmp/seed_${id}_out/$k/demo_test.go /tmp/seed_${id}_out/$k/notes.txt "$d"/ 2>/dev/null
echo "== $d"
./selftest/confirm_seed.sh "$PWD/$d"
for c in $checks; do ./selftest/seedtest.sh "$PWD/$d/patch.diff" "$c"; done
