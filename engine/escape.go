package main

import "golang.org/x/tools/go/ssa"

var addrPrivateMemo = map[*ssa.Alloc]bool{}

// addrPrivate: the address of the local variable never escapes: it is only
// loaded from / stored to (directly, through field or element addresses, or
// through closures that capture it). Pointers to such a cell are never stored
// in memory, boxed or passed to a call.
func addrPrivate(a *ssa.Alloc) bool {
	if v, ok := addrPrivateMemo[a]; ok {
		return v
	}
	r := addrUsesPrivate(a, 0)
	addrPrivateMemo[a] = r
	return r
}

func addrUsesPrivate(v ssa.Value, depth int) bool {
	refs := v.Referrers()
	if refs == nil || depth > 3 {
		return false
	}
	for _, r := range *refs {
		switch r := r.(type) {
		case *ssa.Store:
			if r.Addr != v {
				return false
			}
		case *ssa.UnOp, *ssa.DebugRef:
		case *ssa.FieldAddr:
			if !addrUsesPrivate(r, depth+1) {
				return false
			}
		case *ssa.IndexAddr:
			if !addrUsesPrivate(r, depth+1) {
				return false
			}
		case *ssa.MakeClosure:
			fn := r.Fn.(*ssa.Function)
			for i, b := range r.Bindings {
				if b == v {
					if !addrUsesPrivate(fn.FreeVars[i], depth+1) {
						return false
					}
				}
			}
		default:
			return false
		}
	}
	return true
}

// derivedAddr: the address is computed from a base that was already nil
// checked (field / element address), or is a variable cell: it is never nil.
func derivedAddr(v ssa.Value) bool {
	switch v.(type) {
	case *ssa.FieldAddr, *ssa.IndexAddr, *ssa.Alloc, *ssa.Global, *ssa.FreeVar:
		return true
	}
	return false
}

// closures keep their identity when they travel through a variable cell
var closureByObj = map[*Term]*Value{}

// AssumeDistinctObjs: the driver's precondition that two pointers refer to
// different objects: assumed in the path condition (raw term, so that it
// reaches the solver) and recorded so that the simplifier can use it.
func AssumeDistinctObjs(st *State, a, b *Term) {
	oa, ob := LObj(a), LObj(b)
	if oa == ob {
		return
	}
	st.pc = append(st.pc, App("not", SBool, App("=", SBool, oa, ob)))
	distinctPairs[[2]*Term{oa, ob}] = true
}
