package main

import (
	"bufio"
	"encoding/json"
	"fmt"
	"os"
	"path/filepath"
	"regexp"
	"sort"
	"strings"
	"sync"
	"time"
)

var verifRoot = "/verif"

type Finding struct {
	Kind     string // finding | fixed
	Property string
	Pattern  string // obligation name (may contain * wildcards)
	Text     string
	re       *regexp.Regexp
}

func loadFindings() []Finding {
	var out []Finding
	fh, err := os.Open(filepath.Join(verifRoot, "known_findings.txt"))
	if err != nil {
		return nil
	}
	defer fh.Close()
	sc := bufio.NewScanner(fh)
	for sc.Scan() {
		line := strings.TrimSpace(sc.Text())
		if line == "" || strings.HasPrefix(line, "#") {
			continue
		}
		var f Finding
		switch {
		case strings.HasPrefix(line, "finding:"):
			f.Kind = "finding"
			line = strings.TrimSpace(line[len("finding:"):])
		case strings.HasPrefix(line, "fixed:"):
			f.Kind = "fixed"
			line = strings.TrimSpace(line[len("fixed:"):])
		default:
			continue
		}
		for _, fld := range strings.Fields(line) {
			if strings.HasPrefix(fld, "property=") {
				f.Property = fld[len("property="):]
			} else if strings.HasPrefix(fld, "obligation=") {
				f.Pattern = fld[len("obligation="):]
			}
		}
		if i := strings.Index(line, " -- "); i >= 0 {
			f.Text = strings.TrimSpace(line[i+4:])
		} else {
			f.Text = line
		}
		if f.Pattern != "" {
			q := regexp.QuoteMeta(f.Pattern)
			q = strings.ReplaceAll(q, `\*`, `.*`)
			f.re = regexp.MustCompile("^" + q + "$")
		}
		out = append(out, f)
	}
	return out
}

func matchFinding(fs []Finding, prop, obl string) *Finding {
	for i := range fs {
		f := &fs[i]
		if f.Kind == "finding" && f.Property == prop && f.re != nil && f.re.MatchString(obl) {
			return f
		}
	}
	return nil
}

func loadBaseline(prop string) []string {
	b, err := os.ReadFile(filepath.Join(verifRoot, "baseline", prop+".txt"))
	if err != nil {
		return nil
	}
	var out []string
	for _, l := range strings.Split(string(b), "\n") {
		l = strings.TrimSpace(l)
		if l != "" && !strings.HasPrefix(l, "#") {
			out = append(out, l)
		}
	}
	return out
}

func writeBaseline(prop string, names []string) {
	os.MkdirAll(filepath.Join(verifRoot, "baseline"), 0o755)
	sort.Strings(names)
	os.WriteFile(filepath.Join(verifRoot, "baseline", prop+".txt"),
		[]byte("# obligations of "+prop+" that discharge on the unchanged tree (regenerate with ./check "+prop+" --write-baseline)\n"+strings.Join(names, "\n")+"\n"), 0o644)
}

// ---- discharge

type Tier struct {
	Name     string
	TimeoutS int
	Agree    bool
}

func scriptFor(vc *VC) string {
	as := append(typeCodeFactsFor(vc.Asserts), vc.Asserts...)
	return Script(Prelude(), as, "")
}

// typeCodeFactsFor: rt_kind facts only for scripts mentioning rt_kind.
func typeCodeFactsFor(as []*Term) []*Term {
	uses := false
	seen := map[*Term]bool{}
	var walk func(t *Term)
	walk = func(t *Term) {
		if seen[t] || uses {
			return
		}
		seen[t] = true
		if t.Op == "rt_kind" {
			uses = true
			return
		}
		for _, a := range t.Args {
			walk(a)
		}
	}
	for _, a := range as {
		walk(a)
	}
	if !uses {
		return nil
	}
	return typeCodeFacts()
}

func DischargeOld(obls []*Obligation, tier Tier) {
	// scripts must be rendered sequentially (term tables are not thread safe)
	type job struct {
		o       *Obligation
		scripts []string
	}
	var jobs []job
	for _, o := range obls {
		if o.Backend != "" && o.Status != "" {
			continue // decided by a non-SMT back end
		}
		j := job{o: o}
		for _, vc := range o.VCs {
			if len(vc.Asserts) == 1 && vc.Asserts[0] == False {
				j.scripts = append(j.scripts, "")
				continue
			}
			j.scripts = append(j.scripts, scriptFor(vc))
		}
		jobs = append(jobs, j)
	}
	var wg sync.WaitGroup
	sem := make(chan struct{}, 16)
	for _, j := range jobs {
		wg.Add(1)
		sem <- struct{}{}
		go func(j job) {
			defer wg.Done()
			defer func() { <-sem }()
			o := j.o
			t0 := time.Now()
			o.Status = "discharged"
			o.Solver = "simplifier"
			if o.Expect == "sat" {
				o.Status = "unreachable"
			}
			for i, s := range j.scripts {
				if s == "" {
					continue
				}
				var r SolveResult
				if tier.Agree {
					rs := SolveAll(s, tier.TimeoutS)
					r = rs[0]
					sawUnsat, sawSat := false, false
					for _, x := range rs {
						if x.Status == "unsat" {
							sawUnsat = true
							r = x
						}
						if x.Status == "sat" {
							sawSat = true
						}
					}
					if sawSat {
						for _, x := range rs {
							if x.Status == "sat" {
								r = x
							}
						}
						if sawUnsat {
							r.Output = "SOLVER DISAGREEMENT\n" + r.Output
						}
					}
					r.Seconds = 0
					for _, x := range rs {
						if x.Seconds > r.Seconds {
							r.Seconds = x.Seconds
						}
					}
				} else {
					r = Solve(s, tier.TimeoutS)
				}
				o.Solver = r.Solver
				if o.Expect == "sat" {
					if r.Status == "sat" {
						o.Status = "reachable"
						break
					}
					if r.Status == "unknown" {
						o.Status = "undecided"
						o.Output = r.Output
					}
					continue
				}
				if r.Status == "sat" {
					o.Status = "refuted"
					o.Model = r.Model
					o.Output = r.Output
					o.FailVC = i
					break
				}
				if r.Status == "unknown" {
					o.Status = "undecided"
					o.Output = r.Output
					o.FailVC = i
				}
			}
			o.Seconds = time.Since(t0).Seconds()
		}(j)
	}
	wg.Wait()
}

// ---- evidence

type Evidence struct {
	PropertyID  string                 `json:"property_id"`
	Tier        string                 `json:"tier"`
	Seed        int                    `json:"seed"`
	Level       string                 `json:"level"`
	Coverage    map[string]interface{} `json:"coverage"`
	Assumptions []string               `json:"assumptions"`
	WallS       float64                `json:"wall_s"`
	Violations  int                    `json:"violations"`
}

type CheckResult struct {
	Prop        string
	Level       string
	Obls        []*Obligation
	Functions   []string
	Assumptions []string
	Trusted     []string
	Dropped     []string
	Bounded     []string
	Unproved    []string
	Explanation string
	Extra       map[string]interface{}
}

// Finish discharges, compares with findings/baseline, prints verdict lines,
// writes evidence and replay files. Returns the process exit code.
func Finish(res *CheckResult, tier Tier, seed int, t0 time.Time, writeBase bool, replayFn func(o *Obligation, dir string) (string, bool)) int {
	Discharge(res.Obls, tier)
	findings := loadFindings()
	base := loadBaseline(res.Prop)
	byName := map[string]*Obligation{}
	for _, o := range res.Obls {
		byName[o.Name] = o
	}
	replayDir := filepath.Join(verifRoot, "replays", res.Prop)
	os.RemoveAll(replayDir)
	os.MkdirAll(replayDir, 0o755)

	violations := 0
	var known []string
	var discharged, total, covers, coversOK int
	byBackend := map[string]int{}
	solverTime := 0.0
	var slow []*Obligation
	var okNames []string
	var undecided []string
	report := func(o *Obligation, reason string) {
		if f := matchFinding(findings, res.Prop, o.Name); f != nil {
			fmt.Printf("KNOWN-FINDING: property=%s %s -- %s\n", res.Prop, o.Name, f.Text)
			known = append(known, o.Name)
			return
		}
		violations++
		path, real := "", false
		// battery replays (differential runs on the real pipeline) need no model: they are also tried when the
		// solvers leave a previously discharged obligation undecided
		if replayFn != nil && (o.Status == "refuted" || o.Status == "undecided" && batteryReplayProps[res.Prop] && o.Name != res.Prop+"/generator") {
			path, real = replayFn(o, replayDir)
		}
		if path == "" {
			path = filepath.Join(replayDir, sanitize(o.Name)+".json")
		}
		if !strings.HasSuffix(path, ".json") || !fileExists(path) {
			writeReplayJSON(path, res.Prop, o, reason, real)
		}
		suffix := ""
		if !real {
			suffix = " no-failing-input-found"
		}
		fmt.Printf("VIOLATION property=%s replay=%s obligation=%s reason=%s%s\n", res.Prop, path, o.Name, reason, suffix)
	}
	for _, o := range res.Obls {
		solverTime += o.Seconds
		be := o.Solver
		if o.Backend != "" {
			be = o.Backend
		}
		if o.Expect == "sat" {
			covers++
			if o.Status == "reachable" {
				coversOK++
			} else {
				report(o, "vacuity-guard-"+o.Status)
			}
			continue
		}
		total++
		switch o.Status {
		case "discharged":
			discharged++
			byBackend[be]++
			okNames = append(okNames, o.Name)
		case "refuted":
			report(o, "refuted")
		default:
			undecided = append(undecided, o.Name)
			report(o, "undecided")
		}
		slow = append(slow, o)
	}
	// baseline: every name that discharged on the unchanged tree must still exist
	missing := 0
	for _, n := range base {
		if _, ok := byName[n]; !ok {
			missing++
			o := &Obligation{Name: n, Status: "missing", Output: "contract target missing: the obligation could not be generated from the current source"}
			report(o, "missing")
		}
	}
	if writeBase {
		writeBaseline(res.Prop, okNames)
	}
	sort.Slice(slow, func(i, j int) bool { return slow[i].Seconds > slow[j].Seconds })
	var slowest []map[string]interface{}
	for i := 0; i < len(slow) && i < 5; i++ {
		slowest = append(slowest, map[string]interface{}{"name": slow[i].Name, "seconds": round3(slow[i].Seconds), "solver": slow[i].Solver})
	}
	var samples []map[string]interface{}
	step := len(res.Obls)/6 + 1
	for i := 0; i < len(res.Obls); i += step {
		o := res.Obls[i]
		s := map[string]interface{}{"name": o.Name, "kind": o.Kind, "status": o.Status, "backend": o.Solver, "vcs": len(o.VCs), "seconds": round3(o.Seconds)}
		if len(o.VCs) > 0 && len(o.VCs[0].Asserts) > 0 {
			txt := o.VCs[0].Asserts[len(o.VCs[0].Asserts)-1].String()
			if len(txt) > 400 {
				txt = txt[:400] + "..."
			}
			s["negated_goal"] = txt
		}
		samples = append(samples, s)
	}
	sort.Strings(res.Functions)
	if res.Assumptions == nil {
		res.Assumptions = []string{}
	}
	if res.Trusted == nil {
		res.Trusted = []string{}
	}
	if undecided == nil {
		undecided = []string{}
	}
	if known == nil {
		known = []string{}
	}
	cov := map[string]interface{}{
		"obligations_generated":     total,
		"obligations":               total - len(known),
		"discharged":                discharged,
		"checker_cmd":               fmt.Sprintf("./check %s --tier %s", res.Prop, tier.Name),
		"trusted_base":              res.Trusted,
		"functions_under_contract":  res.Functions,
		"by_backend":                byBackend,
		"solver_time_s":             round3(solverTime),
		"slowest":                   slowest,
		"undecided":                 undecided,
		"unproved":                  res.Unproved,
		"bounded":                   res.Bounded,
		"known_findings_matched":    known,
		"vacuity_guards":            covers,
		"vacuity_guards_ok":         coversOK,
		"baseline_obligations":      len(base),
		"baseline_missing":          missing,
		"dropped_by_translation":    res.Dropped,
		"samples":                   samples,
		"explanation":               res.Explanation,
		"evaluations":               total + covers,
		"distinct_nontrivial":       total,
		"rule":                      "one evaluation per generated obligation (distinct obligation names); non-trivial = a proof obligation (vacuity guards excluded)",
		"solver_timeout_s":          tier.TimeoutS,
		"solvers":                   []string{"z3-new 5.1.0", "z3 4.8.12", "cvc5 1.0.3"},
		"load_seconds":              res.Extra["load_seconds"],
		"generation_seconds":        res.Extra["generation_seconds"],
		"contract_files":            res.Extra["contract_files"],
		"machine_arithmetic":        "Go integers are fixed-width bit-vectors (int = 64 bit, amd64); floats are IEEE FloatingPoint, RNE; not treated as mathematical",
	}
	for k, v := range res.Extra {
		if _, ok := cov[k]; !ok {
			cov[k] = v
		}
	}
	level := res.Level
	ev := Evidence{PropertyID: res.Prop, Tier: tier.Name, Seed: seed, Level: level, Coverage: cov,
		Assumptions: res.Assumptions, WallS: round3(time.Since(t0).Seconds()), Violations: violations}
	os.MkdirAll(filepath.Join(verifRoot, "evidence"), 0o755)
	b, _ := json.MarshalIndent(ev, "", " ")
	os.WriteFile(filepath.Join(verifRoot, "evidence", res.Prop+".json"), b, 0o644)
	fmt.Printf("%s: %d/%d obligations discharged, %d known findings, %d violations, %d vacuity guards ok of %d (%.1fs)\n",
		res.Prop, discharged, total, len(known), violations, coversOK, covers, time.Since(t0).Seconds())
	if violations > 0 {
		return 1
	}
	return 0
}

func fileExists(p string) bool { _, err := os.Stat(p); return err == nil }

func round3(f float64) float64 { return float64(int(f*1000+0.5)) / 1000 }

func writeReplayJSON(path, prop string, o *Obligation, reason string, real bool) {
	m := map[string]interface{}{
		"property":   prop,
		"obligation": o.Name,
		"kind":       o.Kind,
		"function":   o.Func,
		"reason":     reason,
		"status":     o.Status,
		"solver":     o.Solver,
		"solver_output": truncate(o.Output, 20000),
		"model":      truncate(o.Model, 20000),
		"replayed_on_real_code": real,
		"meta":       o.Meta,
	}
	if o.FailVC < len(o.VCs) && len(o.VCs) > 0 {
		m["failed_vc"] = o.VCs[o.FailVC].Desc
	}
	b, _ := json.MarshalIndent(m, "", " ")
	os.WriteFile(path, b, 0o644)
}

func truncate(s string, n int) string {
	if len(s) > n {
		return s[:n] + "...[truncated]"
	}
	return s
}
