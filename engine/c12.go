package main

// C12 — literals and token positions are lexed faithfully (the fragments under contract):
//  * number classification in the parser: a literal spelled in hexadecimal is read by
//    ParseInt with base detection, a decimal integer by ParseInt base 10, a literal with
//    '.', 'e' or 'E' (and no hex prefix) by ParseFloat — decided on the real
//    parsePrimaryExpression with the string predicates as uninterpreted functions;
//  * position bookkeeping of the lexer: next/backup keep loc = location of `end`.

import (
	"sort"
	"fmt"
	"strings"

	"golang.org/x/tools/go/ssa"
)

func genC12(w *World, res *CheckResult) {
	fn := w.Func("parser.parser.parsePrimaryExpression")
	if fn == nil {
		res.Obls = append(res.Obls, missingObl("parser.parser.parsePrimaryExpression/exists", "function not found"))
		return
	}
	res.Functions = append(res.Functions, "parser.parser.parsePrimaryExpression")
	e := NewExec(w)
	e.SafeMode = func(f *ssa.Function) string { return "panics" }
	name := "parser.parsePrimaryExpression[Number]"
	// token kind Number
	type callRec struct {
		which string
		base  *Term
		arg   *Term
	}
	e.CallHook = func(e *Exec, st *State, fr *Frame, cc *ssa.CallCommon, callee *ssa.Function, args []*Value, k func(*State, []*Value)) bool {
		switch callee.String() {
		case "strconv.ParseInt":
			st.ghost["conv"] = StrLit("ParseInt")
			st.ghost["base"] = args[1].One()
			st.ghost["convarg"] = args[0].One()
		case "strconv.ParseFloat":
			st.ghost["conv"] = StrLit("ParseFloat")
			st.ghost["convarg"] = args[0].One()
		}
		switch shortName(callee) {
		case "parser.parser.next", "parser.parser.error", "parser.parser.parsePostfixExpression", "parser.parser.parseIdentifierExpression", "parser.parser.parseArrayExpression", "parser.parser.parseMapExpression":
			// not relevant to the classification: abstracted
			var out []*Value
			rs := callee.Signature.Results()
			for i := 0; i < rs.Len(); i++ {
				out = append(out, e.havocValue(st, rs.At(i).Type(), "r"))
			}
			k(st, out)
			return true
		}
		return false
	}
	st := NewState()
	e.paramMode = true
	pv := e.havocValue(st, fn.Params[0].Type(), "p")
	e.paramMode = false
	st.Assume(Not(Eq(pv.One(), NilLoc)))
	// p.current.Kind == Number
	pst := w.namedType("parser", "parser").Underlying()
	_ = pst
	env := e.entryEnv(st, fn, []*Value{pv}, nil)
	env.water0 = st.water
	st.Assume(e.evalBool(`p.current.Kind == "Number"`, env))
	tokVal := e.evalSpec(`p.current.Value`, env).One()
	cleaned := UF("strings.Replace_r00", SStr, tokVal, StrLit("_"), StrLit(""), BV64(-1))
	hasX := UF("strings.Contains_r00", SBool, cleaned, StrLit("x"))
	hasDotE := UF("strings.ContainsAny_r00", SBool, cleaned, StrLit(".eE"))
	nret := 0
	for _, o := range e.Run(fn, []*Value{pv}, st, nil) {
		if o.Panic != nil {
			continue
		}
		nret++
		conv := o.St.ghost["conv"]
		isInt := Bool(conv != nil && strLitText[conv] == "ParseInt")
		isFloat := Bool(conv != nil && strLitText[conv] == "ParseFloat")
		base := o.St.ghost["base"]
		if base == nil {
			base = BV64(-99)
		}
		arg := o.St.ghost["convarg"]
		if arg == nil {
			arg = StrLit("?")
		}
		// hexadecimal spelling (the only spellings the lexer produces that contain 'x') is read as an integer with base detection
		e.AddVC(name+"/post:hex-is-integer", "post", fn.String(), o.St, And(hasX, Not(And(isInt, Eq(base, BV64(0)), Eq(arg, cleaned)))), "a literal containing 'x' is converted by ParseInt(value, 0, 64)")
		e.AddVC(name+"/post:decimal-is-integer", "post", fn.String(), o.St, And(Not(hasX), Not(hasDotE), Not(And(isInt, Eq(base, BV64(10)), Eq(arg, cleaned)))), "a literal without '.', exponent or hex prefix is converted by ParseInt(value, 10, 64)")
		e.AddVC(name+"/post:float-is-float", "post", fn.String(), o.St, And(Not(hasX), hasDotE, Not(And(isFloat, Eq(arg, cleaned)))), "a decimal literal with '.' or exponent is converted by ParseFloat(value, 64)")
	}
	if nret == 0 {
		e.obls = append(e.obls, missingObl(name+"/post:hex-is-integer", "no returning path"))
	}
	res.Obls = append(res.Obls, e.obls...)
	res.Assumptions = append(res.Assumptions, e.Notes()...)
	res.Assumptions = append(res.Assumptions,
		"strconv.ParseInt / ParseFloat are exact (trusted); strings.Replace / Contains / ContainsAny are uninterpreted predicates of the token text",
		"NOT under contract: escape decoding (unescape, unescapeChar, scanString) and the numeric grammar of scanNumber — they need a string theory this engine does not have (strings are opaque); see DESIGN.md")
	genLexerPositions(w, res)
	genUnescapeFlow(w, res)
	genAcceptSequence(w, res)
}

// genLexerPositions: next and backup maintain loc/prev consistently with end/width.
func genLexerPositions(w *World, res *CheckResult) {
	for _, n := range []string{"lexer.lexer.next", "lexer.lexer.backup", "lexer.lexer.emitValue", "lexer.lexer.ignore", "lexer.lexer.acceptWord", "lexer.unhex", "lexer.unescapeChar", "lexer.digitVal", "lexer.unescape"} {
		fn, ct := w.Func(n), w.Contracts[n]
		if fn == nil || ct == nil {
			res.Obls = append(res.Obls, missingObl(n+"/exists", "function or contract missing"))
			continue
		}
		e := NewExec(w)
		w.forceInline[n] = true
		e.VerifyFunc(fn, ct, nil)
		delete(w.forceInline, n)
		for _, o := range e.obls {
			if !strings.Contains(o.Name, "/safe:") || ct.Mode == "nopanic" {
				res.Obls = append(res.Obls, o)
			}
		}
		res.Assumptions = append(res.Assumptions, e.Notes()...)
		res.Functions = append(res.Functions, n)
	}
}

func c12Replay(o *Obligation, dir string) (string, bool) {
	if !strings.HasPrefix(o.Name, "parser.parsePrimaryExpression[Number]") {
		return "", false
	}
	src := `package expr_test

import (
	"testing"

	"github.com/antonmedv/expr"
)

// replay of obligation ` + o.Name + `
func TestVerifReplay(t *testing.T) {
	for code, want := range map[string]interface{}{"0x1e": 30, "0xE": 14, "0x10": 16, "1_000": 1000, "1e3": 1000.0, "0.5": 0.5, "0xbeef": 48879} {
		got, err := expr.Eval(code, nil)
		if err != nil || got != want {
			t.Fatalf("VIOLATED: %s evaluates to %v (%v), want %v", code, got, err, want)
		}
	}
	t.Logf("clause holds on these literals")
}
`
	return runReplay(o, dir, ".", src)
}

func init() {
	registerProp(&propDef{id: "C12", level: "proof", gen: genC12, replay: c12Replay,
		expl: "number classification of the parser decided on the real parsePrimaryExpression (hex spelling -> ParseInt base 0, decimal -> ParseInt base 10, '.'/exponent -> ParseFloat); lexer position bookkeeping of next/backup/emitValue/ignore under contract"})
}

// genUnescapeFlow: newline normalisation is applied to the source text of the
// literal, never to decoded characters — an escaped \r must stay a carriage
// return (syntactic data-flow obligation over the SSA of lexer.unescape).
func genUnescapeFlow(w *World, res *CheckResult) {
	fn := w.Func("lexer.unescape")
	o := &Obligation{Name: "lexer.unescape/normalizes-source-only", Kind: "post", Expect: "unsat", Backend: "syntactic", Func: "lexer.unescape", Meta: map[string]string{}, Status: "undecided"}
	res.Obls = append(res.Obls, o)
	if fn == nil {
		o.Status, o.Output = "missing", "lexer.unescape not found"
		return
	}
	res.Functions = append(res.Functions, "lexer.unescape")
	var bad []string
	nrep := 0
	for _, b := range fn.Blocks {
		for _, in := range b.Instrs {
			switch x := in.(type) {
			case *ssa.Call:
				if f, ok := x.Call.Value.(*ssa.Function); ok && strings.HasSuffix(f.String(), "strings.Replacer).Replace") {
					nrep++
					if _, isParam := x.Call.Args[len(x.Call.Args)-1].(*ssa.Parameter); !isParam {
						bad = append(bad, "Replace is applied to a value other than the literal's source text")
					}
				}
			case *ssa.Return:
				if len(x.Results) == 2 {
					if c, isNil := x.Results[1].(*ssa.Const); isNil && c.IsNil() {
						// successful return: the decoded bytes, converted and nothing else
						if _, ok := x.Results[0].(*ssa.Convert); !ok {
							bad = append(bad, "the successful result is not the decoded buffer itself")
						}
					}
				}
			}
		}
	}
	if len(bad) == 0 {
		o.Status = "discharged"
		o.Output = fmt.Sprintf("%d normalisation call(s), each on the parameter; the result is string(buf)", nrep)
	} else {
		o.Output = strings.Join(bad, "; ")
	}
}

// genAcceptSequence: the lexer's scanning functions are sequences of
// accept(set) / acceptRun(set) calls; their contract declares that sequence
// (`schema accepts 0 xX ... eE +- *`, * = a run over the current digit set):
// the skeleton of the token grammar (number = prefix digits ["." digits]
// [("e"|"E") ["+"|"-"] digits]). The obligation compares the declared
// sequence with the call sites in source order (syntactic).
func genAcceptSequence(w *World, res *CheckResult) {
	for name, ct := range w.Contracts {
		var want []string
		for _, sc := range ct.Schemas {
			if len(sc) > 0 && sc[0] == "accepts" {
				want = sc[1:]
			}
		}
		if want == nil {
			continue
		}
		o := &Obligation{Name: name + "/accept-sequence", Kind: "post", Expect: "unsat", Backend: "syntactic", Func: name, Meta: map[string]string{}, Status: "undecided"}
		res.Obls = append(res.Obls, o)
		fn := w.Func(name)
		if fn == nil {
			o.Status, o.Output = "missing", "function not found"
			continue
		}
		res.Functions = append(res.Functions, name)
		type site struct {
			pos int
			arg string
		}
		var sites []site
		for _, b := range fn.Blocks {
			for _, in := range b.Instrs {
				c, ok := in.(*ssa.Call)
				if !ok {
					continue
				}
				f, ok := c.Call.Value.(*ssa.Function)
				if !ok || (f.Name() != "accept" && f.Name() != "acceptRun") {
					continue
				}
				arg := "*"
				if k, ok := c.Call.Args[len(c.Call.Args)-1].(*ssa.Const); ok && k.Value != nil {
					arg = strings.Trim(k.Value.ExactString(), "\"")
				}
				if f.Name() == "acceptRun" {
					arg = "*"
				}
				sites = append(sites, site{int(c.Pos()), arg})
			}
		}
		sort.Slice(sites, func(i, j int) bool { return sites[i].pos < sites[j].pos })
		var got []string
		for _, s := range sites {
			got = append(got, s.arg)
		}
		if strings.Join(got, " ") == strings.Join(want, " ") {
			o.Status = "discharged"
			o.Output = "accept / acceptRun calls in source order: " + strings.Join(got, " ")
		} else {
			o.Output = "declared " + strings.Join(want, " ") + " — found " + strings.Join(got, " ")
		}
	}
}
