package main

// C17 — operator overloading is equivalent to calling the function.

import (
	"go/types"

	"golang.org/x/tools/go/ssa"
)

func genC17(w *World, res *CheckResult) {
	for _, n := range []string{"conf.FindSuitableOperatorOverload", "conf.Config.Check"} {
		fn, ct := w.Func(n), w.Contracts[n]
		if fn == nil || ct == nil {
			res.Obls = append(res.Obls, missingObl(n+"/exists", "function or contract missing"))
			continue
		}
		e := NewExec(w)
		w.forceInline[n] = true
		e.VerifyFunc(fn, ct, nil)
		delete(w.forceInline, n)
		res.Obls = append(res.Obls, e.obls...)
		res.Assumptions = append(res.Assumptions, e.Notes()...)
		res.Functions = append(res.Functions, n)
	}
	genPatcherExit(w, res)
	genPipelineOrder(w, res)
	// "wherever the occurrence sits": the traversal obligations of C10
	tmp := &CheckResult{Extra: map[string]interface{}{}}
	genC10(w, tmp)
	res.Obls = append(res.Obls, selectObls(tmp.Obls, `^ast\.walk\[`, `walk-root`, `^ast\.Patch\[`, `^module/rewrites-go-through-ast\.Patch$`)...)
	res.Functions = append(res.Functions, "ast.walker.walk", "ast.Patch")
	// the call the operator is replaced by evaluates its operands in order and calls the function once
	obls, _ := genTemplates(w)
	res.Obls = append(res.Obls, selectObls(obls, `^tmpl:FunctionNode`)...)
	res.Assumptions = append(res.Assumptions,
		"the value semantics of the emitted call (OpCall pops Size arguments, restores their order and calls the function once) is the case contract of VM.Run (C01); here only its stack effect and operand kind are used",
		"Config.Check: every (operator, function) entry passes through the loop body (range semantics); the body obligation shows an entry that does not make Check return an error is a function with 2 (3 for methods) parameters and 1 result")
}

func init() {
	registerProp(&propDef{id: "C17", level: "proof", gen: genC17, expl: "overload resolution, checker/patcher agreement, patch shape, traversal"})
}

// genPatcherExit: (*operatorPatcher).Exit replaces a binary node by
// FunctionNode{Name: fn, Arguments: [Left, Right]} exactly when the overload
// resolution (by its contract) says ok, keeping type and location; otherwise
// the slot is unchanged.
func genPatcherExit(w *World, res *CheckResult) {
	fn := w.Func("compiler.operatorPatcher.Exit")
	nodeT := w.namedType("ast", "Node")
	binT := w.namedType("ast", "BinaryNode")
	funT := w.namedType("ast", "FunctionNode")
	if fn == nil || nodeT == nil || binT == nil || funT == nil {
		res.Obls = append(res.Obls, missingObl("compiler.operatorPatcher.Exit/exists", "function or node types not found"))
		return
	}
	res.Functions = append(res.Functions, "compiler.operatorPatcher.Exit")
	e := NewExec(w)
	e.SafeMode = func(f *ssaFunction) string { return "panics" }
	name := "compiler.operatorPatcher.Exit"
	var lArg, rArg, okRes, nameRes *Term
	var leftNode, rightNode *Term
	e.InvokeHook = func(e *Exec, st *State, fr *Frame, cc *ssaCallCommon, recv *Value, args []*Value, k func(*State, []*Value)) bool {
		// Type() of an operand whose kind is unknown: the type recorded by the checker
		if fr.fn == fn && cc.Method.Name() == "Type" {
			k(st, []*Value{{T: cc.Signature().Results().At(0).Type(), L: []*Term{UF("node_type", SInt, recv.One())}}})
			return true
		}
		return false
	}
	e.CallHook = func(e *Exec, st *State, fr *Frame, cc *ssaCallCommon, callee *ssaFunction, args []*Value, k func(*State, []*Value)) bool {
		if shortName(callee) == "conf.FindSuitableOperatorOverload" && fr.fn == fn {
			lArg, rArg = args[2].One(), args[3].One()
			st.ghost["overload-resolved"] = True
			t := Fresh("ovl_type", SInt)
			nameRes = Fresh("ovl_name", SStr)
			okRes = Fresh("ovl_ok", SBool)
			rt := callee.Signature.Results()
			k(st, []*Value{{T: rt.At(0).Type(), L: []*Term{t}}, {T: rt.At(1).Type(), L: []*Term{nameRes}}, {T: rt.At(2).Type(), L: []*Term{okRes}}})
			return true
		}
		return false
	}
	binPtr := typesNewPointer(binT)
	funPtr := typesNewPointer(funT)
	st := NewState()
	e.paramMode = true
	pv := e.havocValue(st, fn.Params[0].Type(), "p")
	slot := e.havocValue(st, fn.Params[1].Type(), "node")
	e.paramMode = false
	st.Assume(Not(Eq(pv.One(), NilLoc)))
	st.Assume(Not(Eq(slot.One(), NilLoc)))
	b := FreshPre(st, "bin")
	AssumeDistinctObjs(st, b, slot.One())
	AssumeDistinctObjs(st, b, pv.One())
	AssumeDistinctObjs(st, pv.One(), slot.One())
	old := VCtor("VPtr", typeCodeTerm(binPtr), b)
	st.Store(slot.One(), old)
	bst := binT.Underlying().(*typesStruct)
	offOf := func(s *typesStruct, f string) int {
		for i := 0; i < s.NumFields(); i++ {
			if s.Field(i).Name() == f {
				return fieldLeafOffset(s, i)
			}
		}
		panic("field " + f)
	}
	leftNode = st.Load(LocField(b, offOf(bst, "Left")), SVal)
	rightNode = st.Load(LocField(b, offOf(bst, "Right")), SVal)
	line0, col0, typ0 := st.Load(LocField(b, 0), SBV(64)), st.Load(LocField(b, 1), SBV(64)), st.Load(LocField(b, 2), SInt)
	entry := st.Clone()
	fst := funT.Underlying().(*typesStruct)
	// has0: the operator of the binary node has an entry in p.ops (evaluated on the entry state)
	var has0 *Term
	if pp, ok := fn.Params[0].Type().Underlying().(*types.Pointer); ok {
		if pst, ok := pp.Elem().Underlying().(*typesStruct); ok {
			opsLoc := st.Load(LocField(pv.One(), offOf(pst, "ops")), SLoc)
			opStr := st.Load(LocField(b, offOf(bst, "Operator")), SStr)
			has0 = And(Not(Eq(opsLoc, NilLoc)), Select(st.Sel(st.MapHas(SStr), opsLoc), opStr))
		}
	}
	e.call(st, fn, []*Value{pv, slot}, nil, 0, nil,
		func(st *State, _ []*Value) {
			cur := st.Load(slot.One(), SVal)
			if okRes == nil || st.Simp(okRes) != True {
				// not replaced on this path
				e.AddVC(name+"/post[unchanged-unless-overloaded]", "post", fn.String(), st, Not(Eq(cur, old)), "the slot keeps the binary node when no overload fits")
				if st.ghost["overload-resolved"] == nil && has0 != nil {
					e.AddVC(name+"/post[resolves-when-operator-mapped]", "post", fn.String(), st, has0, "a binary node whose operator has an overload table is always put to the overload resolution, whatever its operand types (nil included)")
				}
				_ = entry
				return
			}
			f := VSel("ptr_of", cur)
			args := e.loadT(st, LocField(f, offOf(fst, "Arguments")), fst.Field(2).Type())
			g := And(dynTypeTest(cur, funPtr), Not(Eq(f, NilLoc)),
				Eq(st.Load(LocField(f, offOf(fst, "Name")), SStr), nameRes),
				Eq(args[1], BV64(2)),
				Eq(st.Load(LocIndex(args[0], BV64(0)), SVal), leftNode),
				Eq(st.Load(LocIndex(args[0], BV64(1)), SVal), rightNode),
				Eq(st.Load(LocField(f, 0), SBV(64)), line0), Eq(st.Load(LocField(f, 1), SBV(64)), col0), Eq(st.Load(LocField(f, 2), SInt), typ0))
			e.AddVC(name+"/post[call-of-fn-on-operands]", "post", fn.String(), st, Not(g), "*node == FunctionNode{Name: fn, Arguments: [Left, Right]} with the binary node's type and location")
			e.AddVC(name+"/post[resolves-on-operand-types]", "post", fn.String(), st,
				Not(And(Eq(lArg, UF("node_type", SInt, leftNode)), Eq(rArg, UF("node_type", SInt, rightNode)))), "the overload is resolved on (Left.Type(), Right.Type())")
		},
		func(st *State, pv *Term) {
			e.AddVC(name+"/post[no-fail]", "post", fn.String(), st, True, "Exit must not fail on a well-formed binary node")
		})
	if e.oblIdx[name+"/post[no-fail]"] == nil {
		// no failing path exists: keep the obligation (trivially discharged) so its name is stable
		e.AddVC(name+"/post[no-fail]", "post", fn.String(), NewState(), False, "no path of Exit fails")
	}
	res.Obls = append(res.Obls, e.obls...)
	res.Assumptions = append(res.Assumptions, e.Notes()...)
	// the checker resolves on the types it just computed and records them on the nodes (syntactic)
	res.Obls = append(res.Obls, checkerAgreement(w)...)
}

// checkerAgreement (syntactic over SSA): checker.BinaryNode resolves the
// overload on exactly the types returned by visit(Left), visit(Right), returns
// the overload's result type when ok; and visit records the type it returns on
// the node (so that the patcher, which reads Left.Type()/Right.Type(), sees
// the same pair).
func checkerAgreement(w *World) []*Obligation {
	var out []*Obligation
	mk := func(name string, ok bool, why string) {
		o := &Obligation{Name: name, Kind: "post", Expect: "unsat", Backend: "syntactic", Meta: map[string]string{}, Status: "discharged", Output: why}
		if !ok {
			o.Status = "undecided"
		}
		out = append(out, o)
	}
	bn := w.Func("checker.visitor.BinaryNode")
	okArgs, okRet := false, false
	if bn != nil {
		for _, b := range bn.Blocks {
			for _, in := range b.Instrs {
				c, ok := in.(*ssa.Call)
				if !ok {
					continue
				}
				f, ok := c.Call.Value.(*ssa.Function)
				if !ok || shortName(f) != "conf.FindSuitableOperatorOverload" {
					continue
				}
				isVisitOf := func(v ssa.Value, field string) bool {
					vc, ok := v.(*ssa.Call)
					if !ok {
						return false
					}
					vf, ok := vc.Call.Value.(*ssa.Function)
					if !ok || shortName(vf) != "checker.visitor.visit" {
						return false
					}
					ld, ok := vc.Call.Args[1].(*ssa.UnOp)
					if !ok {
						return false
					}
					fa, ok := ld.X.(*ssa.FieldAddr)
					if !ok || fa.X != ssa.Value(bn.Params[1]) {
						return false
					}
					st := fa.X.Type().Underlying().(*types.Pointer).Elem().Underlying().(*types.Struct)
					return st.Field(fa.Field).Name() == field
				}
				okArgs = isVisitOf(c.Call.Args[2], "Left") && isVisitOf(c.Call.Args[3], "Right")
				// the first result is returned on the ok branch
				if refs := c.Referrers(); refs != nil {
					for _, r := range *refs {
						if ex, ok := r.(*ssa.Extract); ok && ex.Index == 0 && ex.Referrers() != nil {
							for _, rr := range *ex.Referrers() {
								if _, ok := rr.(*ssa.Return); ok {
									okRet = true
								}
							}
						}
					}
				}
			}
		}
	}
	mk("checker.visitor.BinaryNode/overload-on-visited-types", okArgs, "FindSuitableOperatorOverload(fns, types, visit(node.Left), visit(node.Right))")
	mk("checker.visitor.BinaryNode/overload-result-type", okRet, "the overload's result type is the node's type when an overload fits")
	vs := w.Func("checker.visitor.visit")
	okSet := false
	if vs != nil {
		for _, b := range vs.Blocks {
			var set *ssa.Call
			for _, in := range b.Instrs {
				if c, ok := in.(*ssa.Call); ok && c.Call.IsInvoke() && c.Call.Method.Name() == "SetType" && c.Call.Value == ssa.Value(vs.Params[1]) {
					set = c
				}
				if r, ok := in.(*ssa.Return); ok && set != nil && len(r.Results) == 1 && r.Results[0] == set.Call.Args[0] {
					okSet = true
				}
			}
		}
		// every return goes through that block
		nret := 0
		for _, b := range vs.Blocks {
			for _, in := range b.Instrs {
				if _, ok := in.(*ssa.Return); ok {
					nret++
				}
			}
		}
		if nret != 1 {
			okSet = false
		}
	}
	mk("checker.visitor.visit/records-returned-type", okSet, "visit calls node.SetType(t) with the type it returns, on its only return path")
	return out
}
