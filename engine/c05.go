package main

import "strings"

// C05 — emitted bytecode is well-formed and stack-balanced: emission
// templates + bytecode logic (Layer B), per-opcode stack / scope / ip effects
// proved against VM.Run's case bodies (Layer G), encoding helpers under contract.
func genC05(w *World, res *CheckResult) {
	obls, notes := templateObls(w, func(n string) bool { return !reValueObl.MatchString(n) && !reC18Tmpl.MatchString(n) })
	res.Obls = append(res.Obls, obls...)
	res.Assumptions = append(res.Assumptions, notes...)
	g := genRun(w)
	res.Obls = append(res.Obls, selectObls(g.obls, `/post\[(stack|scopes|ip)\]$`, `^vm\.VM\.Run/loop:0/entry\[(stack-empty|scopes-empty|ip|pp)\]$`, `inv-(init|pres)\[(pops|count|i|stack)\]`, `^vm\.VM\.Run/pre-sat$`, `/cover$`)...)
	res.Assumptions = append(res.Assumptions, g.notes...)
	res.Functions = append(res.Functions, g.funcs...)
	for _, n := range []string{"compiler.encode", "compiler.compiler.patchJump", "compiler.compiler.calcBackwardJump", "compiler.compiler.makeConstant"} {
		fn, ct := w.Func(n), w.Contracts[n]
		if fn == nil || ct == nil {
			res.Obls = append(res.Obls, missingObl(n+"/exists", "function or contract missing"))
			continue
		}
		e := NewExec(w)
		w.forceInline[n] = true
		e.VerifyFunc(fn, ct, nil)
		delete(w.forceInline, n)
		res.Obls = append(res.Obls, e.obls...)
		res.Assumptions = append(res.Assumptions, e.Notes()...)
		res.Functions = append(res.Functions, n)
	}
	for n := range w.Funcs {
		if strings.HasPrefix(n, "compiler.compiler.") && strings.HasSuffix(n, "Node") {
			res.Functions = append(res.Functions, n)
		}
	}
	res.Assumptions = append(res.Assumptions,
		"induction hypothesis (contract of compile, used for every child segment): a child segment pushes exactly one value (a PairNode two), leaves the scopes as they were and reads nothing below its entry height; structural induction over finite trees is the meta-step",
		"the elements of MapNode.Pairs are PairNodes and PairNodes occur nowhere else (established by the parser)",
		"BuiltinNode arity: len(Arguments) is what the parser produces (index-out-of-range paths are compile errors)")
}

func init() {
	registerProp(&propDef{id: "C05", level: "proof", gen: genC05, replay: c05Replay,
		expl: "emission templates are extracted from the real compiler by symbolic execution (one trace per control path of every node method) and executed on an abstract VM whose per-opcode stack/scope/operand effects are exactly the clauses proved against VM.Run's case bodies; obligations: placeholders patched once, backward jumps on instruction boundaries, operand kinds, no pop below the segment's entry height, exactly one value left, scopes balanced, loop height invariants; patchJump/calcBackwardJump/encode under contract"})
}

// c05Replay: encoding defects are replayed on the real compiler helpers.
func c05Replay(o *Obligation, dir string) (string, bool) {
	switch {
	case strings.HasPrefix(o.Name, "compiler.compiler.patchJump/") || strings.HasPrefix(o.Name, "compiler.compiler.calcBackwardJump/"):
		src := `package compiler

import "testing"

// replay of obligation ` + o.Name + `: a jump over more than 65535 bytes
func TestVerifReplay(t *testing.T) {
	defer func() {
		if r := recover(); r != nil {
			t.Logf("clause holds: the compiler refuses the jump (%v)", r)
		}
	}()
	c := &compiler{bytecode: make([]byte, 70010)}
	c.bytecode[0] = 0
	c.patchJump(1)
	got := 0 + 3 + int(c.bytecode[1]) + 256*int(c.bytecode[2])
	if got != len(c.bytecode) {
		t.Fatalf("VIOLATED: a forward jump patched at offset 1 of %d bytes lands at %d, not at the end", len(c.bytecode), got)
	}
	b := c.calcBackwardJump(0)
	back := len(c.bytecode) + 3 - (int(b[0]) + 256*int(b[1]))
	if back != 0 {
		t.Fatalf("VIOLATED: a backward jump to 0 from %d lands at %d", len(c.bytecode), back)
	}
}
`
		return runReplay(o, dir, "compiler", src)
	}
	return vmReplay(o, dir)
}
