package main

// Trusted mini-contracts for library functions (DESIGN §5). Every entry is
// listed in the evidence trusted_base when used.

import (
	"fmt"
	"go/types"
	"os"
	"strings"

	"golang.org/x/tools/go/ssa"
)

func shortName(fn *ssa.Function) string {
	if s, ok := shortNameMemo[fn]; ok {
		return s
	}
	s := shortNameRaw(fn)
	shortNameMemo[fn] = s
	return s
}

func shortNameRaw(fn *ssa.Function) string {
	s := fn.String()
	s = strings.ReplaceAll(s, "github.com/antonmedv/expr/", "")
	s = strings.ReplaceAll(s, "github.com/antonmedv/expr.", "expr.")
	s = strings.ReplaceAll(s, "(*", "")
	s = strings.ReplaceAll(s, "(", "")
	s = strings.ReplaceAll(s, ")", "")
	s = strings.ReplaceAll(s, "parser/lexer.", "lexer.")
	return s
}

func valOf(T types.Type, ts ...*Term) *Value { return &Value{T: T, L: ts} }

var (
	tInt    = types.Typ[types.Int]
	tBool   = types.Typ[types.Bool]
	tString = types.Typ[types.String]
	tRune   = types.Typ[types.Rune]
)

// libCall returns true if callee is a modelled library function.
func libCall(e *Exec, st *State, fr *Frame, callee *ssa.Function, args []*Value, k func(*State, []*Value)) bool {
	name := callee.String()
	use := func() { e.W.trusted["lib: "+name] = true }
	sig := callee.Signature
	pureUF := func() {
		// pure function of its scalar arguments
		var as []*Term
		for _, a := range args {
			as = append(as, a.L...)
		}
		var res []*Value
		for i := 0; i < sig.Results().Len(); i++ {
			T := sig.Results().At(i).Type()
			srts := leafSorts(T)
			var L []*Term
			for j, s := range srts {
				L = append(L, UF(sanitize(name)+"_r"+string(rune('0'+i))+string(rune('0'+j)), s, as...))
			}
			res = append(res, &Value{T: T, L: L})
		}
		k(st, res)
	}
	switch name {
	case "fmt.Sprintf", "fmt.Sprint", "fmt.Sprintln":
		use()
		// formatting reads its arguments (may call String/Error methods of
		// user values - assumed side-effect free) and returns a fresh string
		r := Fresh("fmtstr", SStr)
		k(st, []*Value{valOf(tString, r)})
		return true
	case "fmt.Errorf", "errors.New":
		use()
		o := st.NewObj("err")
		ev := VCtor("VPtr", IntLit(96), MkLoc(o, IntLit(0), BV64(0)))
		k(st, []*Value{valOf(sig.Results().At(0).Type(), ev)})
		return true
	case "strings.ContainsRune", "strings.Contains", "strings.ContainsAny", "strings.HasPrefix", "strings.HasSuffix",
		"unicode.IsSpace", "unicode.IsDigit", "unicode.IsLetter", "strings.Replace", "strings.ToUpper", "strings.ToLower",
		"math.Pow", "unicode/utf8.RuneCountInString", "reflect.DeepEqual", "strings.Index", "strings.IndexByte", "strings.TrimSpace",
		"strings.Repeat", "math.IsNaN", "math.IsInf", "math.Float64bits", "math.Float32bits", "strings.Join":
		use()
		pureUF()
		return true
	case "unicode/utf8.DecodeRuneInString":
		use()
		s := args[0].One()
		r := UF("utf8_rune", SBV(32), s)
		w := UF("utf8_width", SBV(64), s)
		// width is 0 for the empty string, 1..4 otherwise, never beyond the string
		st.Assume(Ite(Eq(SLen(s), BV64(0)), Eq(w, BV64(0)),
			And(BVCmp("bvuge", w, BV64(1)), BVCmp("bvule", w, BV64(4)), BVCmp("bvule", w, SLen(s)))))
		k(st, []*Value{valOf(tRune, r), valOf(tInt, w)})
		return true
	case "unicode/utf8.DecodeRune":
		use()
		p, ln := args[0].L[0], args[0].L[1]
		r := UF("utf8b_rune", SBV(32), st.Mem(SBV(8)), p, ln)
		w := UF("utf8b_width", SBV(64), st.Mem(SBV(8)), p, ln)
		st.Assume(Ite(Eq(ln, BV64(0)), Eq(w, BV64(0)),
			And(BVCmp("bvuge", w, BV64(1)), BVCmp("bvule", w, BV64(4)), BVCmp("bvule", w, ln))))
		k(st, []*Value{valOf(tRune, r), valOf(tInt, w)})
		return true
	case "unicode/utf8.EncodeRune":
		use()
		// writes 1..4 bytes into p[0:n]; requires len(p) >= n
		n := UF("utf8_enclen", SBV(64), args[1].One())
		st.Assume(And(BVCmp("bvuge", n, BV64(1)), BVCmp("bvule", n, BV64(4))))
		// exactly the runes below utf8.RuneSelf are encoded in one byte
		if rn := args[1].One(); rn.Sort == SBV(32) {
			st.Assume(Eq(Eq(n, BV64(1)), And(BVCmp("bvsge", rn, BVu(0, 32)), BVCmp("bvslt", rn, BVu(128, 32)))))
		}
		if !e.mayPanic(st, fr, BVCmp("bvult", args[0].L[1], n), "index", nil, StrPanic("runtime error: index out of range")) {
			return true
		}
		old := st.Mem(SBV(8))
		nw := Fresh("Menc", old.Sort)
		st.SetMem(SBV(8), nw)
		for i := 0; i < 4; i++ {
			_ = i
		}
		k(st, []*Value{valOf(tInt, n)})
		return true
	case "strconv.ParseInt", "strconv.ParseFloat", "strconv.Atoi", "regexp.Compile", "regexp.MatchString":
		use()
		// pure; (value, error) both functions of the arguments
		var as []*Term
		for _, a := range args {
			as = append(as, a.L...)
		}
		T0 := sig.Results().At(0).Type()
		var L []*Term
		for j, s := range leafSorts(T0) {
			L = append(L, UF(sanitize(name)+"_v"+string(rune('0'+j)), s, as...))
		}
		if len(L) == 1 && L[0].Sort == SLoc {
			// *regexp.Regexp: a fresh immutable object
			o := st.NewObj("regexp")
			L[0] = Ite(UF(sanitize(name)+"_ok", SBool, as...), MkLoc(o, IntLit(0), BV64(0)), NilLoc)
		}
		errv := Ite(UF(sanitize(name)+"_ok", SBool, as...), VNil, VCtor("VPtr", IntLit(96), MkLoc(IntLit(-3), IntLit(0), BV64(0))))
		k(st, []*Value{{T: T0, L: L}, valOf(sig.Results().At(1).Type(), errv)})
		return true
	case "(*regexp.Regexp).MatchString":
		use()
		if !e.mayPanic(st, fr, Eq(args[0].One(), NilLoc), "nil-deref", nil, nil) {
			return true
		}
		pureUF()
		return true
	case "(*strings.Replacer).Replace":
		use()
		pureUF()
		return true
	case "strings.NewReplacer":
		use()
		o := st.NewObj("replacer")
		k(st, []*Value{valOf(sig.Results().At(0).Type(), MkLoc(o, IntLit(0), BV64(0)))})
		return true
	case "strings.Split":
		use()
		o := st.NewObj("split")
		n := UF("split_n", SBV(64), args[0].One(), args[1].One())
		st.Assume(And(BVCmp("bvsge", n, BV64(1)), BVCmp("bvslt", n, BV64(1<<40))))
		k(st, []*Value{{T: sig.Results().At(0).Type(), L: []*Term{MkLoc(o, IntLit(0), BV64(0)), n, n}}})
		return true
	case "(encoding/binary.littleEndian).PutUint16":
		use()
		// b[0] = byte(v); b[1] = byte(v >> 8); requires len(b) >= 2
		b, v := args[1], args[2].One()
		if !e.mayPanic(st, fr, BVCmp("bvult", b.L[1], BV64(2)), "index", nil, StrPanic("runtime error: index out of range")) {
			return true
		}
		st.Store(LocIndex(b.L[0], BV64(0)), Extract(7, 0, v))
		st.Store(LocIndex(b.L[0], BV64(1)), Extract(15, 8, v))
		k(st, nil)
		return true
	case "reflect.FuncOf", "reflect.SliceOf", "reflect.MapOf", "reflect.PtrTo":
		use()
		// the element types must be non-nil (FuncOf: every in / out element)
		for ai, a := range args {
			switch {
			case len(a.L) == 1 && a.L[0].Sort == SInt:
				if !e.mayPanic(st, fr, Eq(a.L[0], IntLit(0)), "reflect-nil-type", nil, nil) {
					return true
				}
			case len(a.L) == 3 && a.L[1].BV != nil && a.L[1].BV.IsInt64() && a.L[1].BV.Int64() <= 4:
				if sl, ok := a.T.Underlying().(*types.Slice); ok && isNamed(sl.Elem(), "reflect", "Type") {
					for j := int64(0); j < a.L[1].BV.Int64(); j++ {
						el := st.Load(LocIndex(a.L[0], BV64(j)), SInt)
						if !e.mayPanic(st, fr, Eq(el, IntLit(0)), "reflect-nil-type", nil, nil) {
							return true
						}
					}
				}
			}
			_ = ai
		}
		var as []*Term
		for _, a := range args {
			as = append(as, a.L...)
		}
		r := UF(sanitize(name)+"_rt", SInt, as...)
		st.Assume(Not(Eq(r, IntLit(0))))
		k(st, []*Value{valOf(sig.Results().At(0).Type(), r)})
		return true
	case "reflect.TypeOf":
		use()
		k(st, []*Value{valOf(sig.Results().At(0).Type(), rtypeOfVal(args[0].One()))})
		return true
	case "reflect.ValueOf":
		use()
		rv := UF("rv_of", SRV, args[0].One())
		// reflect.ValueOf(nil) is the zero Value; every other argument gives a valid one
		st.Assume(Eq(rvIsValid(rv), Not(Eq(args[0].One(), VNil))))
		// its Kind is the kind of the dynamic type (Invalid for the zero Value); a non-nil interface has a type
		rtv := rtypeOfVal(args[0].One())
		st.Assume(Eq(UF(sanitize("(reflect.Value).Kind")+"_00", SBV(64), rv), Ite(Eq(args[0].One(), VNil), BV64(0), rtKind(rtv))))
		st.Assume(Eq(Eq(rtv, IntLit(0)), Eq(args[0].One(), VNil)))
		k(st, []*Value{valOf(sig.Results().At(0).Type(), rv)})
		return true
	}
	if strings.HasPrefix(name, "(reflect.Value).") || strings.HasPrefix(name, "reflect.") {
		return e.reflectCall(st, fr, callee, name, args, k)
	}
	return false
}

// rtypeOfVal: the reflect.Type code of a dynamic value (0 for nil interface).
func rtypeOfVal(v *Term) *Term {
	if c := ctorOf(v); c != "" {
		switch c {
		case "VNil":
			return IntLit(0)
		case "VPtr":
			return v.Args[0]
		case "VSlice":
			return v.Args[0]
		case "VBox":
			return v.Args[0]
		case "VNamed":
			return v.Args[0]
		}
		for _, b := range basicTypes {
			cc, _ := basicCtor(b)
			if cc == c {
				return typeCodeTerm(b)
			}
		}
	}
	return UF("rt_of", SInt, v)
}

var basicTypes = []*types.Basic{
	types.Typ[types.Bool], types.Typ[types.Int], types.Typ[types.Int8], types.Typ[types.Int16], types.Typ[types.Int32], types.Typ[types.Int64],
	types.Typ[types.Uint], types.Typ[types.Uint8], types.Typ[types.Uint16], types.Typ[types.Uint32], types.Typ[types.Uint64],
	types.Typ[types.Float32], types.Typ[types.Float64], types.Typ[types.String],
}

// rtKind: reflect.Kind of a type code; literal codes fold to literal kinds.
func rtKind(rt *Term) *Term {
	if rt.IntV != nil {
		if T, ok := typeByCode[int(rt.IntV.Int64())]; ok {
			return BV64(int64(kindOfType(T)))
		}
	}
	return App("rt_kind", SBV(64), rt)
}

// reflect.Type method calls (interface invoke). nil receiver panics.
func (e *Exec) reflectTypeMethod(st *State, fr *Frame, cc *ssa.CallCommon, recv *Value, name string, args []*Value, k func(*State, []*Value)) {
	e.W.trusted["lib: reflect.Type."+name+" (nil receiver panics; result an uninterpreted function of the type)"] = true
	rt := recv.One()
	site, _ := cc.Value.(ssa.Instruction)
	if !e.mayPanic(st, fr, Eq(rt, IntLit(0)), "nil-type-call", site, nil) {
		return
	}
	sig := cc.Signature()
	var as []*Term
	as = append(as, rt)
	for _, a := range args {
		as = append(as, a.L...)
	}
	switch name {
	case "Kind":
		k(st, []*Value{valOf(sig.Results().At(0).Type(), rtKind(rt))})
		return
	case "Elem":
		kd := rtKind(rt)
		ok := Or(Eq(kd, BV64(17)), Eq(kd, BV64(18)), Eq(kd, BV64(21)), Eq(kd, BV64(22)), Eq(kd, BV64(23)))
		if !e.mayPanic(st, fr, Not(ok), "reflect-elem", site, nil) {
			return
		}
		r := UF("rt_elem", SInt, rt)
		if srt := st.Simp(rt); srt.IntV != nil && srt.IntV.IsInt64() {
			// a literal type: its element type is known
			if T, ok := typeByCode[int(srt.IntV.Int64())]; ok {
				switch u := T.Underlying().(type) {
				case *types.Pointer:
					r = typeCodeTerm(u.Elem())
				case *types.Slice:
					r = typeCodeTerm(u.Elem())
				case *types.Array:
					r = typeCodeTerm(u.Elem())
				case *types.Map:
					r = typeCodeTerm(u.Elem())
				case *types.Chan:
					r = typeCodeTerm(u.Elem())
				}
			}
		}
		st.Assume(Not(Eq(r, IntLit(0))))
		k(st, []*Value{valOf(sig.Results().At(0).Type(), r)})
		return
	case "In", "Out", "NumIn", "NumOut", "IsVariadic":
		kd := rtKind(rt)
		if !e.mayPanic(st, fr, Not(Eq(kd, BV64(19))), "reflect-func", site, nil) {
			return
		}
		switch name {
		case "In", "Out":
			cnt := UF("rt_Num"+name, SBV(64), rt)
			if !e.mayPanic(st, fr, Not(BVCmp("bvult", args[0].One(), cnt)), "reflect-index", site, nil) {
				return
			}
			r := UF("rt_"+name, SInt, rt, args[0].One())
			st.Assume(Not(Eq(r, IntLit(0))))
			k(st, []*Value{valOf(sig.Results().At(0).Type(), r)})
			return
		case "NumIn", "NumOut":
			r := UF("rt_"+name, SBV(64), rt)
			st.Assume(And(BVCmp("bvsge", r, BV64(0)), BVCmp("bvslt", r, BV64(1<<20))))
			k(st, []*Value{valOf(tInt, r)})
			return
		}
	case "NumField", "Field":
		kd := rtKind(rt)
		if !e.mayPanic(st, fr, Not(Eq(kd, BV64(25))), "reflect-struct", site, nil) {
			return
		}
		if name == "NumField" {
			r := UF("rt_NumField", SBV(64), rt)
			st.Assume(And(BVCmp("bvsge", r, BV64(0)), BVCmp("bvslt", r, BV64(1<<20))))
			k(st, []*Value{valOf(tInt, r)})
			return
		}
		cnt := UF("rt_NumField", SBV(64), rt)
		if !e.mayPanic(st, fr, Not(BVCmp("bvult", args[0].One(), cnt)), "reflect-index", site, nil) {
			return
		}
	}
	// generic: uninterpreted function of the receiver and arguments
	var res []*Value
	for i := 0; i < sig.Results().Len(); i++ {
		T := sig.Results().At(i).Type()
		var L []*Term
		for j, s := range leafSorts(T) {
			t := UF("rt_"+name+"_"+string(rune('0'+i))+string(rune('0'+j)), s, as...)
			L = append(L, t)
		}
		res = append(res, &Value{T: T, L: L})
	}
	k(st, res)
}

// reflectCall: reflect package functions and reflect.Value methods: opaque,
// pure with respect to the modelled heap; may panic (not modelled precisely:
// in nopanic mode they are listed as assumptions).
func (e *Exec) reflectCall(st *State, fr *Frame, callee *ssa.Function, name string, args []*Value, k func(*State, []*Value)) bool {
	e.W.trusted["lib: "+name+" (opaque, assumed not to write modelled memory)"] = true
	sig := callee.Signature
	var as []*Term
	for _, a := range args {
		as = append(as, a.L...)
	}
	if name == "(reflect.Value).Slice" && len(args) == 3 {
		// library precondition: v.Slice(i, j) needs 0 <= i <= j <= v.Len() (cap for slices). A negative lower
		// bound is a value-dependent failure of the caller's input; an upper bound beyond the length or bounds
		// out of order are the caller's bookkeeping and are obligations.
		i, j := args[1].One(), args[2].One()
		ln := UF(sanitize("(reflect.Value).Len")+"_00", SBV(64), args[0].L...)
		site := shortName(fr.fn)
		e.Assert(site+"/lib-pre:reflect.Value.Slice[upper]", "safe", fr.fn.String(), st, BVCmp("bvsle", j, ln), "v.Slice(i, j): j <= v.Len()")
		e.Assert(site+"/lib-pre:reflect.Value.Slice[order]", "safe", fr.fn.String(), st, BVCmp("bvsle", i, j), "v.Slice(i, j): i <= j")
	}
	if name == "(reflect.Value).Call" && len(args) == 2 && len(args[1].L) == 3 {
		// library precondition: reflect.Value.Call panics on a zero Value argument ("Call using zero Value argument")
		ptr, ln := args[1].L[0], args[1].L[1]
		kq := BoundVar(fmt.Sprintf("cq%d", freshSeqNext()), SBV(64))
		elt := st.Sel(st.Mem(SRV), LocIndex(ptr, kq))
		goal := Forall([]*Term{kq}, Implies(And(BVCmp("bvsge", kq, BV64(0)), BVCmp("bvslt", kq, ln)), rvIsValid(elt)))
		e.Assert(shortName(fr.fn)+e.pathLabelOf(st, fr)+"/lib-pre:reflect.Value.Call[args-valid]", "safe", fr.fn.String(), st, goal, "no argument handed to reflect.Value.Call is the zero Value")
	}
	neverPanics := false
	switch name {
	case "(reflect.Value).Kind", "(reflect.Value).IsValid", "(reflect.Value).CanInterface":
		// defined on every Value, the zero Value included
		neverPanics = true
	case "(reflect.Value).Len":
		// panics exactly when the kind is not array, chan, map, slice or string
		if len(as) >= 1 && fr.mode == "panics" {
			kd := UF(sanitize("(reflect.Value).Kind")+"_00", SBV(64), as[0])
			var okk []*Term
			for _, c := range []int64{17, 18, 21, 23, 24} {
				okk = append(okk, Eq(kd, BV64(c)))
			}
			if !e.mayPanic(st, fr, Not(Or(okk...)), "reflect-panic", nil, nil) {
				return true
			}
			neverPanics = true
		}
	case "(reflect.Value).IsNil":
		// panics exactly when the kind is not chan, func, interface, map, pointer, slice or unsafe pointer
		if len(as) >= 1 {
			kd := UF(sanitize("(reflect.Value).Kind")+"_00", SBV(64), as[0])
			var okk []*Term
			for _, c := range []int64{18, 19, 20, 21, 22, 23, 26} {
				okk = append(okk, Eq(kd, BV64(c)))
			}
			if fr.mode == "panics" {
				if !e.mayPanic(st, fr, Not(Or(okk...)), "reflect-panic", nil, nil) {
					return true
				}
			}
			neverPanics = true
		}
	}
	if neverPanics {
		// no panic path
	} else if fr.mode == "nopanic" {
		e.Note("assumed: %s does not panic at its call in %s", name, fnName(fr.fn))
	} else if fr.mode == "panics" {
		// may panic: fork an opaque panic path
		pc := UF("panics_"+sanitize(name), SBool, as...)
		if os.Getenv("VERIF_DEBUG") == "reflect" {
			fmt.Fprintf(os.Stderr, "reflect-panic fork at %s in %s\n", name, fnName(fr.fn))
		}
		if !e.mayPanic(st, fr, pc, "reflect-panic", nil, nil) {
			return true
		}
	}
	var res []*Value
	for i := 0; i < sig.Results().Len(); i++ {
		T := sig.Results().At(i).Type()
		var L []*Term
		for j, s := range leafSorts(T) {
			t := UF(sanitize(name)+"_"+string(rune('0'+i))+string(rune('0'+j)), s, as...)
			if s == SLoc {
				st.KnownLoc(t)
			}
			L = append(L, t)
		}
		v := &Value{T: T, L: L}
		if _, ok := T.Underlying().(*types.Slice); ok {
			st.Assume(And(BVCmp("bvsge", L[1], BV64(0)), BVCmp("bvsle", L[1], L[2])))
		}
		res = append(res, v)
	}
	if name == "(reflect.Value).Elem" && len(as) >= 1 && len(res) == 1 && len(res[0].L) == 1 {
		// the Elem of a Value made from a non-nil pointer is the pointed-to variable: a valid Value
		if as[0].Op == "rv_of" && len(as[0].Args) == 1 {
			p := as[0].Args[0]
			st.Assume(Implies(And(Is("VPtr", p), Not(Eq(VSel("ptr_of", p), NilLoc))), rvIsValid(res[0].L[0])))
		}
	}
	k(st, res)
	return true
}
