package main

import (
	"runtime/debug"
	"strings"
	"fmt"
	"os"
	"go/types"

	"golang.org/x/tools/go/ssa"
)

// symbolicArgs builds arbitrary arguments for fn (pointers refer to
// pre-existing objects; slices and strings have sane headers).
func (e *Exec) symbolicArgs(st *State, fn *ssa.Function) []*Value {
	var args []*Value
	e.paramMode = true
	for _, p := range fn.Params {
		v := e.havocValue(st, p.Type(), p.Name())
		args = append(args, v)
	}
	e.paramMode = false
	return args
}

// VerifyFunc checks fn against its contract ct: requires are assumed,
// ensures are asserted at every return, loops are cut by their invariants,
// safety obligations are generated according to the contract's mode.
func (e *Exec) VerifyFunc(fn *ssa.Function, ct *Contract, setup func(st *State, args []*Value, env *SpecEnv)) {
	name := shortName(fn)
	// the contract must still fit the code (names it mentions exist, its clauses evaluate): if it does not, that is
	// an undecided obligation of this function, not a failure of the whole property's generator
	applies := &Obligation{Name: name + "/contract-applies", Kind: "post", Expect: "unsat", Backend: "generator", Func: fn.String(), Meta: map[string]string{}, Status: "discharged", Output: "every clause of the contract evaluates on the current code"}
	e.obls = append(e.obls, applies)
	defer func() {
		if r := recover(); r != nil {
			applies.Status = "undecided"
			applies.Output = fmt.Sprint("the contract could not be evaluated on the current code: ", r)
			if os.Getenv("VERIF_DEBUG") != "" {
				applies.Output += "\n" + string(debug.Stack())
			}
		}
	}()
	st := NewState()
	args := e.symbolicArgs(st, fn)
	env := e.entryEnv(st, fn, args, nil)
	env.water0 = st.water
	if setup != nil {
		setup(st, args, env)
	}
	for _, r := range ct.Requires {
		st.Assume(e.evalBool(r.Expr, env))
	}
	if fn.Name() != "init" {
		e.initFacts(st, fn, env)
	}
	// vacuity guard: the precondition is satisfiable
	pre := &Obligation{Name: name + "/pre-sat", Kind: "cover", Expect: "sat", Func: fn.String(), Meta: map[string]string{}}
	pre.VCs = append(pre.VCs, &VC{Asserts: append([]*Term{True}, st.pc...)})
	e.obls = append(e.obls, pre)
	entry := st.Clone()
	water0 := st.water
	// frame of a contract with an assigns clause: the objects named there, evaluated at entry
	var assignObjs []*Term
	framedAssigns := len(ct.Assigns) > 0
	for _, a := range ct.Assigns {
		switch {
		case a == "*":
			framedAssigns = false
		case a == "fresh":
		case strings.HasPrefix(a, "obj(") && strings.HasSuffix(a, ")"):
			v := e.evalSpec(a[4:len(a)-1], env)
			assignObjs = append(assignObjs, LObj(v.L[0]))
		}
	}
	mode := ct.Mode
	if mode == "" {
		mode = "panics"
	}
	saved := e.SafeMode
	if saved == nil {
		e.SafeMode = func(f *ssa.Function) string {
			if f == fn {
				return mode
			}
			if c := e.W.Contracts[shortNameCached(f)]; c != nil && c.Mode != "" {
				return c.Mode
			}
			return mode
		}
	}
	nret := 0
	e.call(st, fn, args, nil, 0, ct,
		func(st *State, res []*Value) {
			nret++
			penv := e.entryEnv(st, fn, args, entry)
			penv.water0 = water0
			for i, n := range ct.Results {
				if i < len(res) {
					penv.vars[n] = res[i]
				}
			}
			for _, en := range ct.Ensures {
				e.Assert(fmt.Sprintf("%s/post[%s]", name, en.Label), "post", fn.String(), st, e.evalBool(en.Expr, penv), en.Expr)
			}
			if ct.Pure {
				e.assertPureFrame(name, fn, st, entry, water0)
			} else if framedAssigns {
				e.assertAssignsFrame(name, fn, st, entry, water0, assignObjs)
			}
			// vacuity guard: some returning path is feasible (quantified facts dropped)
			cn := name + "/cover:returns"
			co := e.oblIdx[cn]
			if co == nil {
				co = &Obligation{Name: cn, Kind: "cover", Expect: "sat", Func: fn.String(), Meta: map[string]string{}}
				e.oblIdx[cn] = co
				e.obls = append(e.obls, co)
			}
			if len(co.VCs) < 6 {
				as := []*Term{True}
				for _, p := range st.pc {
					if p.Op != "forall" && p.Op != "exists" {
						as = append(as, p)
					}
				}
				co.VCs = append(co.VCs, &VC{Asserts: as, Seq: nextVCSeq()})
			}
			if e.RetHook != nil {
				e.RetHook(e, st, nil, res)
			}
		},
		func(st *State, pv *Term) {
			if mode == "nopanic" || ct.NoEscape {
				e.AddVC(name+"/safe:panic-escapes", "safe", fn.String(), st, True, "a panic escapes the function")
			}
			if len(ct.PanicsOnlyIf) > 0 {
				penv := e.entryEnv(entry, fn, args, entry)
				penv.water0 = water0
				for k, pc := range ct.PanicsOnlyIf {
					lb := pc.Label
					if lb == "" {
						lb = fmt.Sprint(k)
					}
					// the condition is over the entry state; the path condition is the panicking path's
					cond := e.evalBool(pc.Expr, penv)
					e.AddVC(fmt.Sprintf("%s/post[panics-only-if:%s]", name, lb), "post", fn.String(), st, Not(cond), "the function fails only when: "+pc.Expr)
				}
			}
			if ct.Pure {
				e.assertPureFrame(name, fn, st, entry, water0)
			} else if framedAssigns {
				e.assertAssignsFrame(name, fn, st, entry, water0, assignObjs)
			}
		})
	e.SafeMode = saved
	if nret == 0 {
		e.Note("%s: no returning path was explored", name)
	}
}

var _ = types.Typ

var shortNameMemo = map[*ssa.Function]string{}

func shortNameCached(f *ssa.Function) string { return shortName(f) }

var traceOn = os.Getenv("VERIF_TRACE") != ""

// assertPureFrame: a function declared pure leaves every memory cell of every
// object that existed at entry unchanged (it may allocate and fill fresh objects).
func (e *Exec) assertPureFrame(name string, fn *ssa.Function, st, entry *State, water0 *Term) {
	e.assertFrameObjs(name+"/frame:pure", "declared pure: no cell of a pre-existing object is written", fn, st, entry, water0, nil)
}

// assertAssignsFrame: a function with an assigns clause writes, among the
// objects that existed at entry, only cells of the objects the clause names.
func (e *Exec) assertAssignsFrame(name string, fn *ssa.Function, st, entry *State, water0 *Term, objs []*Term) {
	e.assertFrameObjs(name+"/frame:assigns", "only the objects of the assigns clause (and fresh ones) are written", fn, st, entry, water0, objs)
}

func (e *Exec) assertFrameObjs(oname, desc string, fn *ssa.Function, st, entry *State, water0 *Term, objs []*Term) {
	var keys []string
	for k := range st.mem {
		keys = append(keys, k)
	}
	sortStrings(keys)
	var fs []*Term
	for _, k := range keys {
		old, ok := entry.mem[k]
		if !ok {
			// memory of this sort was not touched before entry: its entry value is the canonical initial array
			tmp := entry.Clone()
			e.ensureMem(tmp, k)
			old = tmp.mem[k]
		}
		if old == st.mem[k] {
			continue
		}
		fs = append(fs, frameFormula(old, st.mem[k], objs, nil, water0))
	}
	e.Assert(oname, "frame", fn.String(), st, And(fs...), desc)
}
