package main

import (
	"fmt"
	"os"

	"golang.org/x/tools/go/ssa"
)

func extraCmd(args []string) bool {
	switch args[0] {
	case "loops":
		w, err := LoadWorld(repoRoot)
		if err != nil {
			fmt.Fprintln(os.Stderr, err)
			os.Exit(2)
		}
		fn := w.Func(args[1])
		if fn == nil {
			fmt.Fprintln(os.Stderr, "no such function")
			os.Exit(2)
		}
		for i, h := range loopHeaders(fn) {
			var phis []string
			for _, in := range h.Instrs {
				if p, ok := in.(*ssa.Phi); ok {
					phis = append(phis, p.Name()+"#"+p.Comment)
				}
			}
			pos := ""
			for b := range loopBody(h) {
				for _, in := range b.Instrs {
					if in.Pos().IsValid() {
						p := w.Fset.Position(in.Pos())
						if pos == "" || p.Line < atoiLine(pos) {
							pos = fmt.Sprint(p.Line)
						}
					}
				}
			}
			fmt.Printf("loop %d: block %d (%s) first-line %s phis %v\n", i, h.Index, h.Comment, pos, phis)
		}
		return true
	}
	return false
}

func atoiLine(s string) int {
	var n int
	fmt.Sscanf(s, "%d", &n)
	return n
}
