package main

// shallowMapSubst replaces sub-terms found in m, looking only depth levels
// deep and never below quantifiers, selects or stores.
func shallowMapSubst(t *Term, m map[*Term]*Term, depth int) *Term {
	if r, ok := m[t]; ok {
		return r
	}
	if depth == 0 || t.Op == "" || len(t.QVars) > 0 || t.Op == "select" || t.Op == "store" {
		return t
	}
	var args []*Term
	for i, a := range t.Args {
		b := shallowMapSubst(a, m, depth-1)
		if b != a && args == nil {
			args = append([]*Term(nil), t.Args...)
		}
		if args != nil {
			args[i] = b
		}
	}
	if args == nil {
		return t
	}
	return rebuild(t, args)
}

// offsetEq decides equalities between a common base plus literal offsets:
// (x + c1) = (x + c2), x = (x + c). Returns nil when not applicable.
func offsetEq(a, b *Term) *Term {
	ba, oa, ka := splitOffset(a)
	bb, ob, kb := splitOffset(b)
	if ka == 0 || kb == 0 || ka != kb || ba != bb {
		return nil
	}
	return Bool(oa.Cmp(ob) == 0)
}

// splitOffset returns (base, offset, kind) with kind 1 = Int, 2 = BV; kind 0 = not applicable.
func splitOffset(t *Term) (*Term, *bigInt, int) {
	switch {
	case t.Op == "+" && len(t.Args) == 2 && t.Args[1].IntV != nil:
		return t.Args[0], t.Args[1].IntV, 1
	case t.Op == "bvadd" && len(t.Args) == 2 && t.Args[1].BV != nil:
		return t.Args[0], t.Args[1].BV, 2
	case t.Sort == SInt && t.IntV == nil:
		return t, bigZero, 1
	case bvWidth(t.Sort) > 0 && t.BV == nil:
		return t, bigZero, 2
	}
	return nil, nil, 0
}

// scriptHeader renders prelude, declarations, string-literal facts and
// define-funs for the shared sub-terms of ts; it returns the header text and
// the name table to print the terms with.
func scriptHeader(prelude string, ts []*Term) (string, map[*Term]string) {
	var sb stringsBuilder
	sb.WriteString(prelude)
	refs := map[*Term]int{}
	var order []*Term
	leaves := map[*Term]bool{}
	var walk func(t *Term)
	walk = func(t *Term) {
		refs[t]++
		if refs[t] > 1 {
			return
		}
		for _, a := range t.Args {
			walk(a)
		}
		if t.Op == "" {
			if !t.IsLit() && !t.Bound && !isCtor[t.Leaf] && !builtinLeaf[t.Leaf] && !stringsHasPrefix(t.Leaf, "(") {
				leaves[t] = true
			}
		}
		order = append(order, t)
	}
	seenTop := map[*Term]bool{}
	for _, a := range ts {
		if seenTop[a] {
			continue
		}
		seenTop[a] = true
		walk(a)
	}
	usedUF := map[string]bool{}
	for _, t := range order {
		if t.Op != "" {
			if _, ok := ufSigs[t.Op]; ok {
				usedUF[t.Op] = true
			}
		}
	}
	var ufs []string
	for u := range usedUF {
		ufs = append(ufs, u)
	}
	sortStrings(ufs)
	for _, u := range ufs {
		sb.WriteString(ufSigs[u])
		sb.WriteByte('\n')
	}
	var ls []*Term
	for l := range leaves {
		ls = append(ls, l)
	}
	sortTermsByID(ls)
	for _, l := range ls {
		if declaredInPrelude[l.Leaf] {
			continue
		}
		sb.WriteString("(declare-fun " + smtSym(l) + " () " + l.Sort + ")\n")
	}
	var lits []*Term
	for _, l := range ls {
		if strLits[l] {
			lits = append(lits, l)
		}
	}
	for _, f := range strLitFacts(lits) {
		sb.WriteString(f)
		sb.WriteByte('\n')
	}
	names := map[*Term]string{}
	for _, t := range order {
		if t.Op != "" && !t.Bound && refs[t] > 1 && len(t.Args) > 0 {
			var b stringsBuilder
			printTerm(&b, t, names)
			n := "$t" + itoa(t.id)
			sb.WriteString("(define-fun " + n + " () " + t.Sort + " " + b.String() + ")\n")
			names[t] = n
		}
	}
	return sb.String(), names
}

// Object identities and watermarks are created in path order and only grow:
// pre-existing objects <= W0 <= every later watermark; a fresh object is
// strictly above the watermark current at its allocation. orderRank records
// the creation sequence so that such comparisons fold syntactically. (All
// ranked leaves occurring in one formula belong to one path.)
var orderRank = map[*Term]int{}

func rankLeaf(t *Term) { orderRank[t] = freshSeqNext() }

func FreshWater(tag string) *Term {
	w := Fresh(tag, SInt)
	rankLeaf(w)
	return w
}

func orderedCmp(op string, a, b *Term) *Term {
	ra, oka := orderRank[a]
	rb, okb := orderRank[b]
	if preObjLeaves[a] {
		ra, oka = 0, true
	}
	if preObjLeaves[b] {
		rb, okb = 0, true
	}
	if !oka || !okb || a == b {
		return nil
	}
	if preObjLeaves[a] && preObjLeaves[b] {
		return nil
	}
	switch op {
	case "<=":
		if ra <= rb {
			return True
		}
		if objLeaves[a] {
			return False // a was allocated strictly above everything older
		}
	case ">=":
		if ra >= rb {
			return True
		}
		if objLeaves[b] {
			return False
		}
	case "<":
		if rb > ra && objLeaves[b] {
			return True
		}
		if ra >= rb {
			return False
		}
	case ">":
		if ra > rb && objLeaves[a] {
			return True
		}
		if ra <= rb {
			return False
		}
	}
	return nil
}
