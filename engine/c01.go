package main

import (
	"regexp"
	"strings"

	"golang.org/x/tools/go/ssa"
)

// verifyInit verifies the ensures clauses of a package initialiser's contract
// (facts about package-level variables that are set once and never again).
func verifyInit(w *World, res *CheckResult, pkg string) {
	sp := w.SSAPkgs[pkg]
	var fn *ssa.Function
	if sp != nil {
		fn = sp.Func("init")
	}
	ct := w.Contracts[pkg+".init"]
	if fn == nil || ct == nil {
		res.Obls = append(res.Obls, missingObl(pkg+".init/exists", "initialiser or contract missing"))
		return
	}
	e := NewExec(w)
	e.SafeMode = func(f *ssa.Function) string { return "ignore" }
	bypassImmutable = false
	e.VerifyFunc(fn, ct, func(st *State, args []*Value, env *SpecEnv) {
		// the initialiser runs once: its guard is still false
		if g, ok := sp.Members["init$guard"].(*ssa.Global); ok {
			st.Store(e.globalLoc(g), False)
		}
	})
	bypassImmutable = true
	for _, o := range e.obls {
		if strings.Contains(o.Name, "/post[") {
			res.Obls = append(res.Obls, o)
		}
	}
	res.Functions = append(res.Functions, pkg+".init")
}

var reValueObl = regexp.MustCompile(`/(value|evaluates|operand-type|size-nonneg)$`)

// the obligations of C15 among the template value obligations: the places
// where static types select a specialised instruction
var reC15Tmpl = regexp.MustCompile(`^tmpl:(BinaryNode\[==\]|IdentifierNode)`)
var reC15Also = regexp.MustCompile(`^tmpl:(IntegerNode|BinaryNode\[!=\])`)

func templateObls(w *World, keep func(name string) bool) ([]*Obligation, []string) {
	obls, notes := genTemplates(w)
	var out []*Obligation
	for _, o := range obls {
		if keep(o.Name) {
			out = append(out, o)
		}
	}
	return out, notes
}

// C01 — compiled evaluation conforms to the language definition: the loop-free
// node kinds. Layer G: every opcode's value clause on VM.Run's case body (the
// stack below the operands is untouched). Layer B: each emission trace of the
// real compiler, run on the abstract VM with exactly those clauses, leaves the
// documented operation applied to the values of the children, and evaluates
// the children the definition says, once, left to right.
func genC01(w *World, res *CheckResult) {
	obls, notes := templateObls(w, func(n string) bool {
		return reValueObl.MatchString(n) && !reC15Tmpl.MatchString(n) || reC18Tmpl.MatchString(n) && !strings.HasPrefix(n, "lemma:")
	})
	res.Obls = append(res.Obls, obls...)
	res.Assumptions = append(res.Assumptions, notes...)
	g := genRun(w)
	res.Obls = append(res.Obls, selectObls(g.obls, `/post\[(value|below|stack|ip)\]$`, `inv-(init|pres)\[(stack-mem|filled|stack|pops|count|i|args-valid)\]`, `/lib-pre:reflect\.Value\.Call`, `/no-explicit-panic$`, `^vm\.VM\.Run/pre-sat$`, `/cover$`)...)
	res.Assumptions = append(res.Assumptions, g.notes...)
	res.Functions = append(res.Functions, g.funcs...)
	// literals: number classification of the parser (cells of C12)
	{
		tmp := &CheckResult{}
		genC12(w, tmp)
		res.Obls = append(res.Obls, selectObls(tmp.Obls, `^parser\.parsePrimaryExpression\[Number\]/`)...)
		res.Functions = append(res.Functions, "parser.parser.parsePrimaryExpression")
	}
	// run-time helpers: library preconditions (a violated one is a failure the definition does not name)
	res.Obls = append(res.Obls, selectObls(genPureAll(w), `^vm\.slice/(lib-pre:|pre-sat)`, `^vm\.isNil/`, `^vm\.length/`)...)
	res.Functions = append(res.Functions, "vm.slice")
	for n := range w.Funcs {
		if strings.HasPrefix(n, "compiler.compiler.") && strings.HasSuffix(n, "Node") {
			res.Functions = append(res.Functions, n)
		}
	}
	res.Assumptions = append(res.Assumptions,
		"fragment: the node kinds whose code has no backward jump and no repeated segment (literals, identifiers, unary, binary incl. short-circuit, matches, property, index, slice, conditional, closure body, #), and the collection builtins through their semantic loop invariants (shared with C18); array/map literals, function and method calls are covered for stack/scope/jump shape by C05 but their values are not decided here",
		"induction hypothesis (contract of compile): a child segment, run from any stack, pushes ev(child) and has no other effect on the stack; ev(child) is the value the definition assigns to the child (structural induction over finite trees is the meta-step)",
		"the run-time helpers (vm.add, vm.less, vm.fetch, vm.slice, vm.in, ...) appear as uninterpreted pure functions of their operands: that they compute the documented arithmetic is C14 (numbers); fetch/slice/in/length against the definition are not decided here",
		"OpRange, OpFetchMap: operand order only (their result is an uninterpreted function of the operands in the order VM.Run pops them, transcribed by hand from vm.go)",
		"failure conditions (`fails exactly when the definition says`) are not part of the value obligations: an instruction's clause describes its normal completion",
		"reference semantics per node kind and operator is written in /verif/engine/tmplvalues.go (expectedOf, evalOrderOK) from docs/Language-Definition.md")
}

// C15 — type information only rejects: the instructions selected from static
// types agree with the generic ones on the operands those types admit.
func genC15(w *World, res *CheckResult) {
	obls, notes := templateObls(w, func(n string) bool {
		return reValueObl.MatchString(n) && (reC15Tmpl.MatchString(n) || reC15Also.MatchString(n))
	})
	res.Obls = append(res.Obls, obls...)
	res.Assumptions = append(res.Assumptions, notes...)
	g := genRun(w)
	res.Obls = append(res.Obls, selectObls(g.obls, `\[(OpEqual|OpEqualInt|OpEqualString|OpFetch|OpFetchNilSafe|OpFetchMap|OpPush)\]/post\[(value|operand-type|below|stack|ip)\]$`, `\[(OpCallFast|OpCall)\]/(env-call:args-not-owned|post\[(stack|ip)\])$`, `\[(OpCallFast|OpCall)\]/cover$`, `^vm\.VM\.Run/pre-sat$`, `\[(OpEqual|OpEqualInt|OpEqualString|OpFetch|OpFetchNilSafe|OpFetchMap|OpPush)\]/cover$`)...)
	res.Assumptions = append(res.Assumptions, g.notes...)
	res.Functions = append(res.Functions, g.funcs...)
	res.Obls = append(res.Obls, selectObls(genPureAll(w), `^vm\.equal/`)...)
	res.Functions = append(res.Functions, "vm.equal", "compiler.compiler.BinaryNode", "compiler.compiler.IdentifierNode", "compiler.compiler.IntegerNode")
	genCheckerPointer(w, res)
	// the selection reads the types the checker recorded: every subtree must have been visited
	genCheckerVisits(w, res)
	// static types the selection relies on: checker.combined predicts the helpers' result kind (cells shared with C14, C03)
	{
		e14 := NewExec(w)
		e14.SafeMode = func(*ssa.Function) string { return "panics" }
		helpers := []string{"toInt", "toInt64", "toFloat64", "negate", "exponent", "equal", "less", "more", "lessOrEqual", "moreOrEqual", "add", "subtract", "multiply", "divide", "modulo"}
		for _, n := range helpers {
			w.forceInline["vm."+n] = true
		}
		tmp := &CheckResult{}
		genC14Checker(w, e14, tmp)
		for _, n := range helpers {
			delete(w.forceInline, "vm."+n)
		}
		res.Obls = append(res.Obls, selectObls(e14.obls, `^checker\.combined\[`)...)
	}
	verifyInit(w, res, "compiler")
	// a folded literal keeps a static type that agrees with its value (cells of C02): a float stamped int switches on the int-only rewrites
	{
		tmp := &CheckResult{Extra: map[string]interface{}{}}
		genC02(w, tmp)
		res.Obls = append(res.Obls, selectObls(tmp.Obls, `^optimizer\.fold\[.*\]/post:type-agrees$`)...)
	}
	// a conditional's static type is one both branch values have (cells of C03): a wrong int here switches on the int-only rewrites
	genCheckerConditional(w, res)
	// the optimizer's type-directed rewrites fire only for operands of exactly the type they are valid for
	{
		tmp := &CheckResult{}
		genInRange(w, tmp)
		genInArray(w, tmp)
		res.Obls = append(res.Obls, selectObls(tmp.Obls, `/post:(int|string)-guard$`, `/post:shape$`, `/cover:rewrites$`)...)
		res.Functions = append(res.Functions, tmp.Functions...)
		verifyInit(w, res, "optimizer")
	}
	res.Assumptions = append(res.Assumptions,
		"typing assumption (trusted; C03's soundness restricted to two types): a child whose static type is exactly int (string) evaluates to an int (string) cell",
		"fragment: `==` (OpEqualInt / OpEqualString against vm.equal), integer literals (typed push = Go conversion of the literal to the static kind), identifiers (OpFetchMap is selected exactly when the environment is declared a map; that map indexing agrees with vm.fetch on a map is not decided: reflect.Value.MapIndex is outside the engine's library model)",
		"OpCallFast against OpCall, Eval against Compile+Run, struct against pointer environments: not decided here (calls through reflect.Value.Call)")
}

func init() {
	registerProp(&propDef{id: "C01", level: "proof", gen: genC01, replay: c01Replay,
		expl: "per-opcode value clauses proved on VM.Run's case bodies; emission traces of the real compiler executed on an abstract VM that reads those clauses; result and evaluation order compared with the reference semantics of each loop-free node kind"})
	registerProp(&propDef{id: "C15", level: "proof", gen: genC15, replay: c01Replay,
		expl: "type-directed instruction selection: on every emission path that selects OpEqualInt/OpEqualString the operands are cells of that type (operand-type) and the result equals vm.equal's (contract of vm.equal on int/string cells, verified on its body); typed integer push; map fetch selection"})
}
