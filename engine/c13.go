package main

// C13 — errors point at the offending source position: the location plumbing, function by function.

import (
	"fmt"
	"go/types"
	"sort"
	"strings"

	"golang.org/x/tools/go/ssa"
)

func genC13(w *World, res *CheckResult) {
	// (a) parser: every syntax node that is allocated is stamped with the location of a token before it is used
	var pfns []*ssa.Function
	for n, f := range w.Funcs {
		if strings.HasPrefix(n, "parser.parser.") {
			pfns = append(pfns, f)
		}
	}
	sort.Slice(pfns, func(i, j int) bool { return shortName(pfns[i]) < shortName(pfns[j]) })
	nodeIface := w.namedType("ast", "Node").Underlying().(*types.Interface)
	for _, f := range pfns {
		cnt := map[string]int{}
		for _, b := range f.Blocks {
			for _, in := range b.Instrs {
				a, ok := in.(*ssa.Alloc)
				if !ok {
					continue
				}
				pt := a.Type().(*types.Pointer)
				named, ok := pt.Elem().(*types.Named)
				if !ok || named.Obj().Pkg() == nil || named.Obj().Pkg().Name() != "ast" || !types.Implements(pt, nodeIface) {
					continue
				}
				kind := named.Obj().Name()
				cnt[kind]++
				name := fmt.Sprintf("%s/alloc[%s#%d]/located", shortName(f), kind, cnt[kind])
				o := &Obligation{Name: name, Kind: "post", Expect: "unsat", Backend: "syntactic", Func: f.String(), Meta: map[string]string{}, Status: "undecided"}
				o.Output = "the node is never given a location: no SetLocation(<token>.Location) on it"
				if tok := setLocationOf(a); tok != "" {
					o.Status = "discharged"
					o.Output = "SetLocation(" + tok + ")"
					// the stamp is the token saved when the construct began (its own first / operator token), not
					// whatever token is current once its parts have been parsed
					o2 := &Obligation{Name: fmt.Sprintf("%s/alloc[%s#%d]/located-at-saved-token", shortName(f), kind, cnt[kind]), Kind: "post", Expect: "unsat", Backend: "syntactic", Func: f.String(), Meta: map[string]string{}, Status: "discharged", Output: "SetLocation(" + tok + ")"}
					if strings.HasPrefix(tok, "p.") {
						o2.Status = "undecided"
						o2.Output = "the node is stamped with " + tok + " read at allocation time: the token after the construct, not the construct's own"
					}
					res.Obls = append(res.Obls, o2)
					// the token is saved where the construct is recognised: in the block that saves it, the parser has
					// not advanced (next / expect) before the save. Constructs whose own token comes after a consumed
					// one (the name after '.', ...) are declared: `schema located-after-advance <Kind>` with the reason.
					if ld := savedTokenLoad(a); ld != nil {
						adv := ""
						for _, bi := range ld.Block().Instrs {
							if bi == ssa.Instruction(ld) {
								break
							}
							if c, ok := bi.(ssa.CallInstruction); ok {
								if cf, ok := c.Common().Value.(*ssa.Function); ok && (cf.Name() == "next" || cf.Name() == "expect") {
									adv = cf.Name()
								}
							}
						}
						declared := false
						if ct := w.Contracts[shortName(f)]; ct != nil {
							for _, sc := range ct.Schemas {
								if len(sc) >= 2 && sc[0] == "located-after-advance" && sc[1] == kind {
									declared = true
								}
							}
						}
						o3 := &Obligation{Name: fmt.Sprintf("%s/alloc[%s#%d]/saved-before-advance", shortName(f), kind, cnt[kind]), Kind: "post", Expect: "unsat", Backend: "syntactic", Func: f.String(), Meta: map[string]string{}, Status: "discharged", Output: "the token is saved before the parser advances in that block"}
						if declared {
							o3.Output = "declared: the construct's own token follows a consumed one"
						} else if adv != "" {
							o3.Status = "undecided"
							o3.Output = "the token is saved after p." + adv + "() in the same block: it is the token after the construct's own"
						}
						res.Obls = append(res.Obls, o3)
					}
				}
				res.Obls = append(res.Obls, o)
			}
		}
		res.Functions = append(res.Functions, shortName(f))
	}
	// (b) checker.error, (c) compiler.emit, lexer stamps (shared with C12), Patch keeps the location (shared with C10)
	for _, n := range []string{"checker.visitor.error", "compiler.compiler.emit", "lexer.lexer.emitValue", "lexer.lexer.next", "lexer.lexer.backup", "lexer.lexer.acceptWord", "parser.parser.error", "file.Source.updateOffsets", "compiler.compiler.compile"} {
		fn, ct := w.Func(n), w.Contracts[n]
		if fn == nil || ct == nil {
			res.Obls = append(res.Obls, missingObl(n+"/exists", "function or contract missing"))
			continue
		}
		e := NewExec(w)
		w.forceInline[n] = true
		e.VerifyFunc(fn, ct, nil)
		delete(w.forceInline, n)
		for _, o := range e.obls {
			if !strings.Contains(o.Name, "/safe:") {
				res.Obls = append(res.Obls, o)
			}
		}
		res.Assumptions = append(res.Assumptions, e.Notes()...)
		res.Functions = append(res.Functions, n)
	}
	tmp := &CheckResult{Extra: map[string]interface{}{}}
	genC10(w, tmp)
	res.Obls = append(res.Obls, selectObls(tmp.Obls, `^ast\.Patch\[`, `^module/rewrites-go-through-ast\.Patch$`)...)
	genBuiltinErrorSite(w, res)
	genErrorAtChild(w, res)
	// (c2) errors the optimizer raises at compile time carry the location of the failing operation (cells of C02)
	{
		tmp2 := &CheckResult{Extra: map[string]interface{}{}}
		genC02(w, tmp2)
		res.Obls = append(res.Obls, selectObls(tmp2.Obls, `^optimizer\.fold\[.*\]/post:error-at-operator$`)...)
		res.Functions = append(res.Functions, "optimizer.fold.Exit")
	}
	// (d) the VM reports the location recorded for the opcode being executed: pp is the offset of that opcode
	g := genRun(w)
	res.Obls = append(res.Obls, selectObls(g.obls, `/post\[ip\]$`, `^vm\.VM\.Run/pre-sat$`)...)
	res.Assumptions = append(res.Assumptions,
		"which token is the 'offending occurrence' for a node kind is a table of intent (operator token for binary/unary/matches, own name token for identifiers, literals, calls, properties, '[' for index/slice/array, '{' for closures/maps); the syntactic obligation only requires that some token's location is used",
		"file.Source: only the unit of the line offsets is under contract (each line advances the offset by its rune count + 1, contents being a []rune); Snippet / findLineOffset / Error.Bind's column arithmetic are not (strings.Split and rune counting are opaque functions here)",
		"lexer errors are stamped after the offending rune (pinned by the repository's tests); recorded as as-designed")
}

// setLocationOf: description of the argument of the SetLocation call applied to alloc a (through a
// MakeInterface or directly), if it is the Location field of a token.
func setLocationOf(a *ssa.Alloc) string {
	var vals []ssa.Value
	vals = append(vals, a)
	if a.Referrers() != nil {
		for _, r := range *a.Referrers() {
			if mi, ok := r.(*ssa.MakeInterface); ok {
				vals = append(vals, mi)
			}
			// (*base).SetLocation(&node.base, ...): the embedded base of the node
			if fa, ok := r.(*ssa.FieldAddr); ok && fa.Field == 0 {
				vals = append(vals, fa)
			}
			// stored into a variable / phi: follow one level
			if ph, ok := r.(*ssa.Phi); ok {
				vals = append(vals, ph)
			}
		}
	}
	for _, v := range vals {
		if v.Referrers() == nil {
			continue
		}
		for _, r := range *v.Referrers() {
			c, ok := r.(*ssa.Call)
			if !ok {
				if ph, ok := r.(*ssa.Phi); ok && ph.Referrers() != nil {
					for _, rr := range *ph.Referrers() {
						if c2, ok := rr.(*ssa.Call); ok && callIsSetLocation(c2) {
							return locArg(c2)
						}
					}
				}
				continue
			}
			if callIsSetLocation(c) {
				return locArg(c)
			}
		}
	}
	return ""
}

// savedTokenLoad: the load of p.<field> (a lexer.Token) whose Location is the argument of the SetLocation call on
// alloc a, when the token was saved in a local before; nil if the shape is another.
func savedTokenLoad(a *ssa.Alloc) *ssa.UnOp {
	var call *ssa.Call
	var find func(v ssa.Value, depth int)
	find = func(v ssa.Value, depth int) {
		if call != nil || depth > 3 || v.Referrers() == nil {
			return
		}
		for _, r := range *v.Referrers() {
			switch y := r.(type) {
			case *ssa.Call:
				if callIsSetLocation(y) && locArg(y) == "token.Location" {
					call = y
					return
				}
			case *ssa.MakeInterface:
				find(y, depth+1)
			case *ssa.Phi:
				find(y, depth+1)
			case *ssa.FieldAddr:
				if y.Field == 0 {
					find(y, depth+1)
				}
			}
		}
	}
	find(a, 0)
	if call == nil {
		return nil
	}
	isTokLoad := func(v ssa.Value) *ssa.UnOp {
		u, ok := v.(*ssa.UnOp)
		if !ok {
			return nil
		}
		fa, ok := u.X.(*ssa.FieldAddr)
		if !ok {
			return nil
		}
		if _, isParam := fa.X.(*ssa.Parameter); !isParam {
			return nil
		}
		return u
	}
	args := call.Call.Args
	switch x := args[len(args)-1].(type) {
	case *ssa.Field:
		return isTokLoad(x.X)
	case *ssa.UnOp:
		if fa, ok := x.X.(*ssa.FieldAddr); ok {
			if al, ok := fa.X.(*ssa.Alloc); ok && al.Referrers() != nil {
				var ld *ssa.UnOp
				n := 0
				for _, r := range *al.Referrers() {
					if st, ok := r.(*ssa.Store); ok && st.Addr == ssa.Value(al) {
						n++
						ld = isTokLoad(st.Val)
					}
				}
				if n == 1 {
					return ld
				}
			}
		}
	}
	return nil
}

func callIsSetLocation(c *ssa.Call) bool {
	if c.Call.IsInvoke() {
		return c.Call.Method.Name() == "SetLocation"
	}
	if f, ok := c.Call.Value.(*ssa.Function); ok {
		return f.Name() == "SetLocation"
	}
	return false
}

func locArg(c *ssa.Call) string {
	args := c.Call.Args
	v := args[len(args)-1]
	// expect: load of FieldAddr(token, Location) or Field(token, Location)
	switch x := v.(type) {
	case *ssa.UnOp:
		if fa, ok := x.X.(*ssa.FieldAddr); ok {
			st := fa.X.Type().Underlying().(*types.Pointer).Elem().Underlying().(*types.Struct)
			if st.Field(fa.Field).Name() == "Location" {
				// where does the token live? a field of the parser itself (p.current read at stamping time) or a saved copy
				if inner, ok := fa.X.(*ssa.FieldAddr); ok {
					if _, isParam := inner.X.(*ssa.Parameter); isParam {
						pst := inner.X.Type().Underlying().(*types.Pointer).Elem().Underlying().(*types.Struct)
						return "p." + pst.Field(inner.Field).Name() + ".Location"
					}
				}
				return "token.Location"
			}
		}
	case *ssa.Field:
		st := x.X.Type().Underlying().(*types.Struct)
		if st.Field(x.Field).Name() == "Location" {
			return "token.Location"
		}
	}
	return ""
}

func init() {
	registerProp(&propDef{id: "C13", level: "proof", gen: genC13,
		expl: "location plumbing per function: every syntax node allocated by the parser is stamped with a token's location; parser.error and checker.error record the location of the current token / offending node (first error wins); compiler.emit records the location of the innermost node for the offset of the opcode it emits; the VM's pp is the offset of the opcode being executed; ast.Patch preserves locations; lexer tokens carry the location of their first character"})
}

// genBuiltinErrorSite: a builtin applied to a non-collection is reported at
// that argument (the offending occurrence), not at the closure or the call:
// the real checker.visitor.BuiltinNode is run with the first argument typed
// int; the node handed to v.error must be Arguments[0].
func genBuiltinErrorSite(w *World, res *CheckResult) {
	fn := w.Func("checker.visitor.BuiltinNode")
	if fn == nil {
		res.Obls = append(res.Obls, missingObl("checker.visitor.BuiltinNode/exists", "function not found"))
		return
	}
	lay := astLayout{w}
	for _, name := range []string{"all", "none", "any", "one", "filter", "map", "count"} {
		cell := "checker.BuiltinNode[" + name + "]/error-at-collection"
		e := NewExec(w)
		e.SafeMode = func(f *ssa.Function) string { return "panics" }
		st := NewState()
		e.paramMode = true
		vv := e.havocValue(st, fn.Params[0].Type(), "v")
		e.paramMode = false
		st.Assume(Not(Eq(vv.One(), NilLoc)))
		bn, args := FreshPre(st, "builtin"), FreshPre(st, "args")
		AssumeDistinctObjs(st, bn, vv.One())
		AssumeDistinctObjs(st, args, vv.One())
		AssumeDistinctObjs(st, bn, args)
		e.initFacts(st, fn, e.entryEnv(st, fn, []*Value{vv, {T: fn.Params[1].Type(), L: []*Term{bn}}}, nil))
		a0, a1 := Fresh("collection", SVal), Fresh("closure", SVal)
		st.Assume(Not(Eq(a0, VNil)))
		st.Assume(Not(Eq(a1, VNil)))
		st.Assume(Not(Eq(a0, a1)))
		st.Store(LocField(bn, lay.off("BuiltinNode", "Name")), StrLit(name))
		ao := lay.off("BuiltinNode", "Arguments")
		st.Store(LocField(bn, ao), args)
		st.Store(LocField(bn, ao+1), BV64(2))
		st.Store(LocField(bn, ao+2), BV64(2))
		st.Store(args, a0)
		st.Store(LocIndex(args, BV64(1)), a1)
		seen := 0
		e.CallHook = func(e *Exec, st *State, fr *Frame, cc *ssa.CallCommon, callee *ssa.Function, cargs []*Value, k func(*State, []*Value)) bool {
			switch shortName(callee) {
			case "checker.visitor.visit":
				// the collection operand is an int: not something a builtin can iterate
				k(st, []*Value{{T: callee.Signature.Results().At(0).Type(), L: []*Term{typeCodeTerm(types.Typ[types.Int])}}})
				return true
			case "checker.visitor.error":
				// the first error raised on this path (the visitor keeps only the first)
				if st.ghost["error-site-seen"] == nil {
					st.ghost["error-site-seen"] = True
					e.AddVC(cell, "post", fn.String(), st, Not(Eq(cargs[1].One(), a0)), "the error for a non-collection operand is raised on that operand")
				}
				seen++
			}
			return false
		}
		e.Run(fn, []*Value{vv, {T: fn.Params[1].Type(), L: []*Term{bn}}}, st, nil)
		if seen == 0 {
			res.Obls = append(res.Obls, missingObl(cell, "the builtin does not reject an int operand"))
		}
		for _, o := range e.obls {
			if o.Name == cell {
				res.Obls = append(res.Obls, o)
			}
		}
	}
	res.Functions = append(res.Functions, "checker.visitor.BuiltinNode")
}
