package main

func init() {
	registerProp(&propDef{id: "T00", level: "proof", gen: genT00, expl: "engine self-test on vm.makeRange"})
}

func genT00(w *World, res *CheckResult) {
	e := NewExec(w)
	fn := w.Func("vm.makeRange")
	e.VerifyFunc(fn, w.Contracts["vm.makeRange"], nil)
	res.Obls = append(res.Obls, e.obls...)
	res.Assumptions = append(res.Assumptions, e.Notes()...)
	res.Functions = append(res.Functions, "vm.makeRange")
}
