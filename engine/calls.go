package main

import (
	"fmt"
	"go/types"
	"strings"

	"golang.org/x/tools/go/ssa"
)

// doCall handles an ssa.Call instruction at b.Instrs[i] and continues the block.
func (e *Exec) doCall(st *State, fr *Frame, b *ssa.BasicBlock, i int, in *ssa.Call) {
	cc := &in.Call
	var args []*Value
	for _, a := range cc.Args {
		args = append(args, e.val(st, fr, a))
	}
	fv := e.val(st, fr, cc.Value)
	e.invoke(st, fr, cc, fv, args, false, func(st *State, res []*Value) {
		fr2 := fr.Clone()
		var L []*Term
		for _, r := range res {
			L = append(L, r.L...)
		}
		v := &Value{T: in.Type(), L: L}
		if len(res) == 1 {
			v.Fn, v.Bnd, v.Tag = res[0].Fn, res[0].Bnd, res[0].Tag
		}
		fr2.vals[in] = v
		e.runFrom(st, fr2, b, i+1)
	})
}

// invoke performs a call described by cc with evaluated callee value fv and args.
// k is called on every normally returning path; panics go to the frame.
func (e *Exec) invoke(st *State, fr *Frame, cc *ssa.CallCommon, fv *Value, args []*Value, deferred bool, k func(*State, []*Value)) {
	if cc.IsInvoke() {
		e.invokeMethod(st, fr, cc, fv, args, k)
		return
	}
	if fv.Bi != nil {
		e.builtin(st, fr, cc, fv.Bi, args, k)
		return
	}
	callee := fv.Fn
	if callee == nil {
		if f, ok := cc.Value.(*ssa.Function); ok {
			callee = f
		}
	}
	if callee == nil && len(fv.L) == 1 && ctorOf(fv.L[0]) == "mkloc" {
		// a closure that went through a variable: recover it from its object
		if cl, ok := closureByObj[fv.L[0].Args[0]]; ok {
			callee = cl.Fn
			fv = cl
		}
	}
	if callee == nil {
		// dynamic call of an unknown function value
		si, _ := cc.Value.(ssa.Instruction)
		if !e.mayPanic(st, fr, Eq(fv.One(), NilLoc), "nil-func-call", si, nil) {
			return
		}
		// a function value supplied by the environment: its effects are the
		// caller's, not the library's; modelled as opaque (result arbitrary,
		// may panic, writes nothing the library owns)
		e.Note("assumed: function values supplied by the environment (called in %s) do not write memory owned by the library and do not mutate the environment during a run", fnName(fr.fn))
		e.assertArgsNotOwned(st, fr, args)
		var as []*Term
		for _, a := range args {
			as = append(as, a.L...)
		}
		if fr.mode == "panics" {
			if !e.mayPanic(st, fr, Fresh("envfn_panics", SBool), "env-func-panic", si, nil) {
				return
			}
		}
		var res []*Value
		sig := cc.Signature()
		for i := 0; i < sig.Results().Len(); i++ {
			res = append(res, e.havocValue(st, sig.Results().At(i).Type(), "envret"))
		}
		k(st, res)
		return
	}
	if e.CallHook != nil && e.CallHook(e, st, fr, cc, callee, args, k) {
		return
	}
	if lib := libCall(e, st, fr, callee, args, k); lib {
		return
	}
	if ct := e.W.Contracts[shortName(callee)]; ct != nil && !ct.Inline && (len(ct.Ensures)+len(ct.Requires) > 0 || ct.Pure || ct.MayPanic || len(ct.Assigns) > 0) && !e.W.forceInline[shortName(callee)] {
		e.callByContract(st, fr, callee, ct, args, k)
		return
	}
	if len(callee.Blocks) > 0 && e.inModule(callee) && fr.depth < 12 && (e.InlineOK == nil || e.InlineOK(callee)) {
		kp := func(st *State, pv *Term) { e.doPanic(st, fr.Clone(), pv) }
		e.call(st, callee, args, fv.Bnd, fr.depth+1, e.W.Contracts[shortName(callee)], k, kp)
		return
	}
	e.unknownCall(st, fr, callee.String(), callee.Signature, args, k)
}

func (e *Exec) inModule(fn *ssa.Function) bool {
	p := fn.Package()
	if p == nil && fn.Parent() != nil {
		return e.inModule(fn.Parent())
	}
	if p == nil {
		// synthetic wrappers (promoted methods) have no package: use the method object's
		if o := fn.Object(); o != nil && o.Pkg() != nil {
			return strings.HasPrefix(o.Pkg().Path(), "github.com/antonmedv/expr")
		}
		return false
	}
	return strings.HasPrefix(p.Pkg.Path(), "github.com/antonmedv/expr")
}

// unknownCall: results and all memory are havoc'd. Whether it may panic is
// decided by the frame mode: in nopanic mode this is recorded as an assumption.
func (e *Exec) unknownCall(st *State, fr *Frame, name string, sig *types.Signature, args []*Value, k func(*State, []*Value)) {
	e.Note("assumed: call to %s has no contract: results and reachable memory havoc'd; assumed not to panic", name)
	writes := false
	for _, a := range args {
		for _, l := range a.L {
			if l.Sort == SLoc || l.Sort == SVal {
				writes = true
			}
		}
	}
	if writes {
		st.HavocMem(nil)
	}
	var res []*Value
	for i := 0; i < sig.Results().Len(); i++ {
		res = append(res, e.havocValue(st, sig.Results().At(i).Type(), "ret"))
	}
	k(st, res)
}

// invokeMethod: interface method call.
func (e *Exec) invokeMethod(st *State, fr *Frame, cc *ssa.CallCommon, recv *Value, args []*Value, k func(*State, []*Value)) {
	name := cc.Method.Name()
	rt := cc.Value.Type()
	if isNamed(rt, "reflect", "Type") {
		if name == "AssignableTo" && e.InvokeHook != nil && e.InvokeHook(e, st, fr, cc, recv, args, k) {
			return // a harness that knows both types decides assignability itself
		}
		e.reflectTypeMethod(st, fr, cc, recv, name, args, k)
		return
	}
	if e.InvokeHook != nil && e.InvokeHook(e, st, fr, cc, recv, args, k) {
		return
	}
	if e.resolveInvoke(st, fr, cc, recv, args, k) {
		return
	}
	nilrecv := Eq(recv.One(), VNil)
	site, _ := cc.Value.(ssa.Instruction)
	if !e.mayPanic(st, fr, nilrecv, "nil-invoke", site, nil) {
		return
	}
	// error.Error(), fmt.Stringer: pure
	if name == "Error" || name == "String" {
		k(st, []*Value{{T: types.Typ[types.String], L: []*Term{UF("method_"+name, SStr, recv.One())}}})
		return
	}
	e.unknownCall(st, fr, "interface method "+rt.String()+"."+name+" (in "+fnName(fr.fn)+")", cc.Signature(), append([]*Value{recv}, args...), k)
}

// ---- builtins

func (e *Exec) builtin(st *State, fr *Frame, cc *ssa.CallCommon, bi *ssa.Builtin, args []*Value, k func(*State, []*Value)) {
	one := func(T types.Type, t *Term) { k(st, []*Value{{T: T, L: []*Term{t}}}) }
	intT := types.Typ[types.Int]
	switch bi.Name() {
	case "len":
		a := args[0]
		switch u := a.T.Underlying().(type) {
		case *types.Basic:
			one(intT, SLen(a.One()))
		case *types.Slice:
			one(intT, a.L[1])
		case *types.Map:
			ks := leafSorts(u.Key())
			if len(ks) == 1 {
				c := UF("mapcard_"+sortKey(ks[0]), SBV(64), Select(st.MapHas(ks[0]), a.One()))
				st.Assume(BVCmp("bvsge", c, BV64(0)))
				one(intT, Ite(Eq(a.One(), NilLoc), BV64(0), c))
			} else {
				one(intT, e.havocValue(st, intT, "maplen").One())
			}
		case *types.Pointer:
			one(intT, BV64(u.Elem().Underlying().(*types.Array).Len()))
		default:
			panic("len of " + a.T.String())
		}
	case "cap":
		a := args[0]
		switch a.T.Underlying().(type) {
		case *types.Slice:
			one(intT, a.L[2])
		default:
			panic("cap of " + a.T.String())
		}
	case "append":
		e.appendBuiltin(st, fr, cc, args, k)
	case "panic":
		e.doPanic(st, fr, args[0].One())
	case "recover":
		if st.panicking != nil {
			pv := st.panicking
			st.panicking = nil
			one(types.NewInterfaceType(nil, nil), pv)
		} else {
			one(types.NewInterfaceType(nil, nil), VNil)
		}
	case "copy":
		e.Note("unsupported: builtin copy in %s (destination memory havoc'd)", fr.fn)
		st.HavocMem(nil)
		one(intT, e.havocValue(st, intT, "copy").One())
	case "delete":
		m := args[0].One()
		kk := args[1]
		if len(kk.L) == 1 {
			ks := kk.L[0].Sort
			has := st.MapHas(ks)
			st.mem["MH:"+ks] = Store(has, m, Store(st.Sel(has, m), kk.L[0], False))
		}
		k(st, nil)
	case "close":
		k(st, nil)
	case "print", "println":
		k(st, nil)
	case "min", "max":
		panic("builtin min/max unsupported")
	default:
		panic("builtin " + bi.Name())
	}
}

// appendBuiltin: modelled in place (capacity treated as unbounded) unless the
// slice is nil, in which case a fresh backing object is allocated. Stated as
// an assumption: functions under contract use the x = append(x, ...) idiom.
func (e *Exec) appendBuiltin(st *State, fr *Frame, cc *ssa.CallCommon, args []*Value, k func(*State, []*Value)) {
	s, t := args[0], args[1]
	sl := s.T.Underlying().(*types.Slice)
	ptr, ln := s.L[0], s.L[1]
	isnil := Eq(ptr, NilLoc)
	var np *Term
	if isnil == False {
		np = ptr
	} else {
		o := st.NewObj("append")
		np = Ite(isnil, MkLoc(o, IntLit(0), BV64(0)), ptr)
	}
	var n *Term
	if isString(t.T) {
		// append([]byte, string...)
		str := t.One()
		n = SLen(str)
		e.Note("unsupported: append(bytes, string...) contents in %s (havoc of byte memory)", fr.fn)
		st.SetMem(SBV(8), Fresh("Mh_app", SArr(SLoc, SBV(8))))
	} else {
		tptr, tn := t.L[0], t.L[1]
		n = tn
		esrt := leafSorts(sl.Elem())
		if tn.BV != nil && tn.BV.IsInt64() && tn.BV.Int64() <= 8 {
			cnt := int(tn.BV.Int64())
			for i := 0; i < cnt; i++ {
				src := LocIndex(tptr, BV64(int64(i)))
				dst := LocIndex(np, BVBin("bvadd", ln, BV64(int64(i))))
				for j, sj := range esrt {
					st.Store(LocField(dst, j), st.Load(LocField(src, j), sj))
				}
			}
		} else {
			// symbolic number of appended elements: new memory agrees with the
			// old one outside the appended window, and holds t's elements inside.
			for j, sj := range esrt {
				old := st.Mem(sj)
				nw := Fresh("Mapp", old.Sort)
				l := BoundVar(fmt.Sprintf("al%d", freshSeqNext()), SLoc)
				inwin := And(Eq(LObj(l), LObj(np)), Eq(LLeaf(l), IntAdd(LLeaf(np), IntLit(int64(j)))),
					BVCmp("bvuge", BVBin("bvsub", LIdx(l), BVBin("bvadd", LIdx(np), ln)), BV64(0)),
					BVCmp("bvult", BVBin("bvsub", LIdx(l), BVBin("bvadd", LIdx(np), ln)), n))
				st.Assume(Forall([]*Term{l}, Implies(Not(inwin), Eq(Select(nw, l), Select(old, l)))))
				i := BoundVar(fmt.Sprintf("ai%d", freshSeqNext()), SBV(64))
				st.Assume(Forall([]*Term{i}, Implies(BVCmp("bvult", i, n),
					Eq(Select(nw, LocField(LocIndex(np, BVBin("bvadd", ln, i)), j)), Select(old, LocField(LocIndex(tptr, i), j))))))
				st.SetMem(sj, nw)
			}
		}
	}
	nl := BVBin("bvadd", ln, n)
	nc := Fresh("cap", SBV(64))
	st.Assume(BVCmp("bvsge", nc, nl))
	st.Assume(BVCmp("bvslt", nl, BV64(1<<47)))
	st.Assume(BVCmp("bvslt", nc, BV64(1<<47)))
	k(st, []*Value{{T: s.T, L: []*Term{np, nl, nc}}})
}

// ---- contracts at call sites

func (e *Exec) callByContract(st *State, fr *Frame, callee *ssa.Function, ct *Contract, args []*Value, k func(*State, []*Value)) {
	env := e.entryEnv(st, callee, args, nil)
	site := fmt.Sprintf("%s/call-pre:%s", fnName(fr.fn), shortName(callee))
	for _, r := range ct.Requires {
		g := e.evalBool(r.Expr, env)
		e.Assert(site+"["+r.Label+"]", "call-pre", fr.fn.String(), st, g, r.Expr)
	}
	e.usedContracts[shortName(callee)] = true
	if ct.MayPanic {
		var as []*Term
		for _, a := range args {
			as = append(as, a.L...)
		}
		pc := UF("panics_"+sanitize(shortName(callee)), SBool, as...)
		if len(as) == 0 {
			pc = Fresh("panics_"+sanitize(shortName(callee)), SBool)
		}
		if !e.mayPanic(st, fr, pc, "callee-panic:"+shortName(callee), nil, nil) {
			return
		}
	}
	pre := st.Clone()
	// frame: havoc what the callee may assign
	e.applyAssigns(st, ct, env)
	// the callee may allocate: results may refer to objects above the old watermark
	w0 := st.water
	st.water = FreshWater("Wc")
	st.pc = append(st.pc, App(">=", SBool, st.water, w0))
	var res []*Value
	rs := callee.Signature.Results()
	for i := 0; i < rs.Len(); i++ {
		if ct.Pure && len(leafSorts(rs.At(i).Type())) == 1 && leafSorts(rs.At(i).Type())[0] != SLoc {
			// a pure function's scalar result is a function of its arguments (the
			// environment is assumed not to change during a run)
			var as []*Term
			for _, a := range args {
				as = append(as, a.L...)
			}
			res = append(res, &Value{T: rs.At(i).Type(), L: []*Term{UF(pureResultName(shortName(callee), i), leafSorts(rs.At(i).Type())[0], as...)}})
			continue
		}
		res = append(res, e.havocValue(st, rs.At(i).Type(), "res_"+callee.Name()))
	}
	penv := e.entryEnv(st, callee, args, pre)
	penv.water0 = pre.water
	for i, n := range ct.Results {
		if i < len(res) {
			penv.vars[n] = res[i]
		}
	}
	for _, en := range ct.Ensures {
		st.Assume(e.evalBool(en.Expr, penv))
	}
	k(st, res)
}

func (e *Exec) applyAssigns(st *State, ct *Contract, env *SpecEnv) {
	if len(ct.Assigns) == 0 {
		if ct.Pure {
			return
		}
		// no frame given: the callee may write anything the caller can see
		e.Note("contract of %s has no assigns clause: its calls havoc all memory", ct.Func)
		st.HavocMem(nil)
		return
	}
	for _, a := range ct.Assigns {
		if a == "*" {
			st.HavocMem(nil)
			return
		}
	}
	// object-granular frames: assigns obj(p) havocs every location of p's object
	var objs []*Term
	for _, a := range ct.Assigns {
		if strings.HasPrefix(a, "obj(") {
			v := e.evalSpec(a[4:len(a)-1], env)
			objs = append(objs, LObj(v.L[0]))
		} else if a == "fresh" || a == "nothing" {
			// handled through the watermark below
		} else {
			panic("assigns: unsupported clause " + a)
		}
	}
	water0 := st.water
	st.water = FreshWater("W")
	st.pc = append(st.pc, App(">=", SBool, st.water, water0))
	for key, old := range st.mem {
		nw := Fresh("Mc_"+sortKey(key), old.Sort)
		l := BoundVar(fmt.Sprintf("fl%d", freshSeqNext()), SLoc)
		var same []*Term
		for _, o := range objs {
			same = append(same, Not(Eq(LObj(l), o)))
		}
		same = append(same, IntCmp("<=", LObj(l), water0))
		st.AddQFact(nw, &qfact{v: l, guard: And(same...), lhs: Select(nw, l), rhs: Select(old, l)})
		st.mem[key] = nw
	}
}
