package main

import (
	"fmt"
	"math/big"
	"strings"
)

// SMT prelude shared by every obligation: the Loc and Val datatypes, the
// opaque string sort with its observers, opaque reflect.Value, ghost events.

type valCtor struct {
	name string
	sels []string // selector names
	srts []string
}

var valCtors = []valCtor{
	{"VNil", nil, nil},
	{"VBool", []string{"b_of"}, []string{SBool}},
	{"VInt", []string{"int_of"}, []string{SBV(64)}},
	{"VInt8", []string{"int8_of"}, []string{SBV(8)}},
	{"VInt16", []string{"int16_of"}, []string{SBV(16)}},
	{"VInt32", []string{"int32_of"}, []string{SBV(32)}},
	{"VInt64", []string{"int64_of"}, []string{SBV(64)}},
	{"VUint", []string{"uint_of"}, []string{SBV(64)}},
	{"VUint8", []string{"uint8_of"}, []string{SBV(8)}},
	{"VUint16", []string{"uint16_of"}, []string{SBV(16)}},
	{"VUint32", []string{"uint32_of"}, []string{SBV(32)}},
	{"VUint64", []string{"uint64_of"}, []string{SBV(64)}},
	{"VF32", []string{"f32_of"}, []string{SF32}},
	{"VF64", []string{"f64_of"}, []string{SF64}},
	{"VStr", []string{"str_of"}, []string{SStr}},
	// single-word reference-like dynamic types: pointers, maps, chans, funcs
	{"VPtr", []string{"ptr_typ", "ptr_of"}, []string{SInt, SLoc}},
	{"VSlice", []string{"sl_typ", "sl_ptr", "sl_len", "sl_cap"}, []string{SInt, SLoc, SBV(64), SBV(64)}},
	// struct / array values boxed at an immutable object
	{"VBox", []string{"box_typ", "box_of"}, []string{SInt, SLoc}},
	// named types whose underlying type is basic (reflect.Kind, lexer.Kind, ...)
	{"VNamed", []string{"nm_typ", "nm_of"}, []string{SInt, SVal}},
}

var valCtorByName = map[string]*valCtor{}

func init() {
	for i := range valCtors {
		c := &valCtors[i]
		valCtorByName[c.name] = c
		isCtor[c.name] = true
		for j, s := range c.sels {
			selInfo[s] = selI{c.name, j}
		}
	}
	isCtor["mkloc"] = true
	selInfo["lobj"] = selI{"mkloc", 0}
	selInfo["lleaf"] = selI{"mkloc", 1}
	selInfo["lidx"] = selI{"mkloc", 2}
	for _, n := range []string{"slen", "sbyte", "sconcat", "sslice", "slt", "evnil", "evsnoc", "evcat", "NilLoc", "rt_kind", "sfrombytes"} {
		declaredInPrelude[n] = true
	}
}

func Prelude() string {
	var sb strings.Builder
	sb.WriteString("(declare-sort Str 0)\n(declare-sort RV 0)\n")
	sb.WriteString("(declare-datatypes ((Loc 0)) (((mkloc (lobj Int) (lleaf Int) (lidx (_ BitVec 64))))))\n")
	sb.WriteString("(declare-datatypes ((Val 0)) ((")
	for _, c := range valCtors {
		sb.WriteString("(" + c.name)
		for i := range c.sels {
			fmt.Fprintf(&sb, " (%s %s)", c.sels[i], c.srts[i])
		}
		sb.WriteString(") ")
	}
	sb.WriteString(")))\n")
	sb.WriteString("(declare-fun slen (Str) (_ BitVec 64))\n")
	sb.WriteString("(declare-fun sbyte (Str (_ BitVec 64)) (_ BitVec 8))\n")
	sb.WriteString("(declare-fun sconcat (Str Str) Str)\n")
	sb.WriteString("(declare-fun sslice (Str (_ BitVec 64) (_ BitVec 64)) Str)\n")
	sb.WriteString("(declare-fun slt (Str Str) Bool)\n")
	sb.WriteString("(declare-fun rt_kind (Int) (_ BitVec 64))\n")
	// ghost event sequences
	sb.WriteString("(declare-datatypes ((Ev 0)) (((mkev (ev_kind Int) (ev_a Loc) (ev_b Val)))))\n")
	sb.WriteString("(declare-datatypes ((Evs 0)) (((evnil) (evsnoc (ev_init Evs) (ev_last Ev)))))\n")
	return sb.String()
}

func init() {
	isCtor["mkev"] = true
	isCtor["evnil"] = true
	isCtor["evsnoc"] = true
	selInfo["ev_kind"] = selI{"mkev", 0}
	selInfo["ev_a"] = selI{"mkev", 1}
	selInfo["ev_b"] = selI{"mkev", 2}
	selInfo["ev_init"] = selI{"evsnoc", 0}
	selInfo["ev_last"] = selI{"evsnoc", 1}
}

// ---- Loc

var NilLoc *Term

func init() {
	NilLoc = MkLoc(IntLit(0), IntLit(0), BV64(0))
}

func MkLoc(obj, leaf, idx *Term) *Term { return Ctor("mkloc", SLoc, obj, leaf, idx) }
func LObj(l *Term) *Term               { return Sel("lobj", "mkloc", SInt, 0, l) }
func LLeaf(l *Term) *Term              { return Sel("lleaf", "mkloc", SInt, 1, l) }
func LIdx(l *Term) *Term               { return Sel("lidx", "mkloc", SBV(64), 2, l) }

func IntAdd(a, b *Term) *Term {
	if a.IntV != nil && b.IntV != nil {
		return IntLit(new(big.Int).Add(a.IntV, b.IntV).Int64())
	}
	if b.IntV != nil && b.IntV.Sign() == 0 {
		return a
	}
	if a.IntV != nil && a.IntV.Sign() == 0 {
		return b
	}
	if b.IntV != nil && a.Op == "+" && a.Args[1].IntV != nil {
		return IntAdd(a.Args[0], IntLit(new(big.Int).Add(a.Args[1].IntV, b.IntV).Int64()))
	}
	return App("+", SInt, a, b)
}
func IntCmp(op string, a, b *Term) *Term {
	if r := orderedCmp(op, a, b); r != nil {
		return r
	}
	if a.IntV != nil && b.IntV != nil {
		c := a.IntV.Cmp(b.IntV)
		switch op {
		case "<":
			return Bool(c < 0)
		case "<=":
			return Bool(c <= 0)
		case ">":
			return Bool(c > 0)
		case ">=":
			return Bool(c >= 0)
		}
	}
	return App(op, SBool, a, b)
}

// LocField offsets the leaf component; LocIndex offsets the element index.
func LocField(l *Term, leaf int) *Term {
	if leaf == 0 {
		return l
	}
	return MkLoc(LObj(l), IntAdd(LLeaf(l), IntLit(int64(leaf))), LIdx(l))
}
func LocIndex(l *Term, i *Term) *Term {
	return MkLoc(LObj(l), LLeaf(l), BVBin("bvadd", LIdx(l), i))
}

// ---- Val constructors / selectors

func VCtor(name string, args ...*Term) *Term { return Ctor(name, SVal, args...) }
func VSel(sel string, v *Term) *Term {
	si := selInfo[sel]
	c := valCtorByName[si.ctor]
	return Sel(sel, si.ctor, c.srts[si.pos], si.pos, v)
}

var VNil = Ctor("VNil", SVal)

// ---- strings

var strLitText = map[*Term]string{}

func StrLit(s string) *Term {
	name := fmt.Sprintf("str%q", s)
	if strings.ContainsAny(name, "|\\") {
		// not expressible inside an SMT-LIB quoted symbol: name the literal by its bytes
		name = fmt.Sprintf("strx%x", s)
	}
	t := Leaf(name, SStr)
	strLits[t] = true
	strLitText[t] = s
	return t
}

func SLen(s *Term) *Term {
	if strLits[s] {
		return BV64(int64(len(strLitText[s])))
	}
	if s.Op == "sconcat" {
		return BVBin("bvadd", SLen(s.Args[0]), SLen(s.Args[1]))
	}
	if s.Op == "sslice" {
		// s[lo:hi] (bounds were checked where the slice was taken)
		return BVBin("bvsub", s.Args[2], s.Args[1])
	}
	return App("slen", SBV(64), s)
}
func SByte(s, i *Term) *Term {
	if s.Op == "sslice" {
		// s[lo:hi][i] == s[lo+i] (the index was checked against hi-lo where it is read)
		return SByte(s.Args[0], BVBin("bvadd", s.Args[1], i))
	}
	if strLits[s] && i.BV != nil && i.BV.IsInt64() && i.BV.Int64() < int64(len(strLitText[s])) {
		return BVu(uint64(strLitText[s][i.BV.Int64()]), 8)
	}
	return App("sbyte", SBV(8), s, i)
}
func SConcat(a, b *Term) *Term {
	if strLits[a] && strLits[b] {
		return StrLit(strLitText[a] + strLitText[b])
	}
	return App("sconcat", SStr, a, b)
}
func SSlice(s, lo, hi *Term) *Term { return App("sslice", SStr, s, lo, hi) }
func SLt(a, b *Term) *Term {
	if strLits[a] && strLits[b] {
		return Bool(strLitText[a] < strLitText[b])
	}
	return App("slt", SBool, a, b)
}

// strLitFacts: background facts about string literals occurring in a script.
func strLitFacts(lits []*Term) []string {
	var out []string
	for _, l := range lits {
		s := strLitText[l]
		out = append(out, fmt.Sprintf("(assert (= (slen %s) (_ bv%d 64)))", smtSym(l), len(s)))
		if len(s) <= 16 {
			for i := 0; i < len(s); i++ {
				out = append(out, fmt.Sprintf("(assert (= (sbyte %s (_ bv%d 64)) (_ bv%d 8)))", smtSym(l), i, s[i]))
			}
		}
	}
	if len(lits) > 1 {
		var sb strings.Builder
		sb.WriteString("(assert (distinct")
		for _, l := range lits {
			sb.WriteString(" " + smtSym(l))
		}
		sb.WriteString("))")
		out = append(out, sb.String())
	}
	return out
}

// ---- floating point

func FPLit64(bits uint64) *Term {
	return App("(_ to_fp 11 53)", SF64, BVu(bits, 64))
}
func FPLit32(bits uint32) *Term {
	return App("(_ to_fp 8 24)", SF32, BVu(uint64(bits), 32))
}

var RNE = Leaf("RNE", "RoundingMode")
var RTZ = Leaf("RTZ", "RoundingMode")
