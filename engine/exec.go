package main

// Layer G: forward symbolic execution of go/ssa with path enumeration.
// Loops are cut at their headers by declared invariants; calls go through
// contracts, inlining or the library table (calls.go).

import (
	"fmt"
	"go/constant"
	"go/token"
	"go/types"
	"math"
	"math/big"
	"os"
	"sort"
	"strings"

	"golang.org/x/tools/go/ssa"
)

type VC struct {
	Asserts []*Term
	Desc    string
	Seq     int // global creation order (VCs of one path are contiguous and share pc prefixes)
}

var vcSeq int

func nextVCSeq() int { vcSeq++; return vcSeq }

type Obligation struct {
	Name   string
	Kind   string // post | safe | inv-init | inv-pres | dec | call-pre | cover | canary | frame | tmpl | lemma
	Expect string // "unsat" (proof obligation) or "sat" (cover / canary)
	Func   string
	VCs    []*VC
	Meta   map[string]string
	// result
	Status  string
	Solver  string
	Seconds float64
	Output  string
	Model   string
	FailVC  int
	Backend string // non-SMT back ends ("frame", "syntactic") decide some obligations
}

type State struct {
	pc    []*Term
	mem   map[string]*Term
	water *Term // Int: object ids <= water are allocated
	ghost map[string]*Term
	notes []string
	// panic in flight (set by doPanic, cleared by recover())
	panicking *Term
	lits      map[*Term]bool
	subst     map[*Term]*Term
	allocs    *Term // ghost: collection elements created (BV64), nil if untracked
	qf        map[*Term][]*qfact // lazily instantiated universal facts per base array
	qfDone    map[[2]*Term]bool
	trail     []int // blocks of the root function visited (trace mode only)
	events    *Term // ghost event sequence (sort Evs), nil if untracked
	aux       interface{} // driver-owned path-local data (treated as immutable: replace, never mutate)
	epoch     int         // number of unframed whole-memory havocs so far
}

func NewState() *State {
	return &State{mem: map[string]*Term{}, ghost: map[string]*Term{}, water: FreshWater("W0")}
}

func (s *State) Clone() *State {
	n := &State{pc: append([]*Term(nil), s.pc...), mem: make(map[string]*Term, len(s.mem)), ghost: make(map[string]*Term, len(s.ghost)), water: s.water}
	for k, v := range s.mem {
		n.mem[k] = v
	}
	for k, v := range s.ghost {
		n.ghost[k] = v
	}
	n.notes = s.notes
	n.panicking = s.panicking
	n.allocs = s.allocs
	n.trail = s.trail
	n.events = s.events
	n.aux = s.aux
	n.epoch = s.epoch
	if s.qf != nil {
		n.qf = make(map[*Term][]*qfact, len(s.qf))
		for k, v := range s.qf {
			n.qf[k] = v
		}
	}
	if s.qfDone != nil {
		n.qfDone = make(map[[2]*Term]bool, len(s.qfDone))
		for k, v := range s.qfDone {
			n.qfDone[k] = v
		}
	}
	if s.lits != nil {
		n.lits = make(map[*Term]bool, len(s.lits))
		for k, v := range s.lits {
			n.lits[k] = v
		}
	}
	if s.subst != nil {
		n.subst = make(map[*Term]*Term, len(s.subst))
		for k, v := range s.subst {
			n.subst[k] = v
		}
	}
	return n
}

func (s *State) Assume(t *Term) {
	if t == nil || t == True {
		return
	}
	t = s.Simp(t)
	if t == True {
		return
	}
	if t.Op == "and" {
		for _, a := range t.Args {
			s.Assume(a)
		}
		return
	}
	s.pc = append(s.pc, t)
	s.learn(t)
}

// learn records literals and equalities with literals for later simplification.
func (s *State) learn(t *Term) {
	if s.lits == nil {
		s.lits = map[*Term]bool{}
	}
	switch {
	case t.Op == "and":
		for _, a := range t.Args {
			s.learn(a)
		}
	case t.Op == "not":
		s.lits[t.Args[0]] = false
	case t.Op == "forall" || t.Op == "exists":
	default:
		s.lits[t] = true
		if t.Op == "=" {
			a, b := t.Args[0], t.Args[1]
			if a.IsLit() || ctorOf(a) != "" && len(a.Args) == 0 {
				a, b = b, a
			}
			if (b.IsLit() || ctorOf(b) != "" && len(b.Args) == 0) && !a.IsLit() {
				if s.subst == nil {
					s.subst = map[*Term]*Term{}
				}
				s.subst[a] = b
			}
		}
	}
}

// shallowSubst applies the known equalities to the top levels of t only
// (enough for switch dispatch on a loaded value; cheap on big memory terms).
func (s *State) shallowSubst(t *Term, depth int) *Term {
	if r, ok := s.subst[t]; ok {
		return r
	}
	if depth == 0 || t.Op == "" || len(t.QVars) > 0 || t.Op == "select" || t.Op == "store" {
		return t
	}
	var args []*Term
	for i, a := range t.Args {
		b := s.shallowSubst(a, depth-1)
		if b != a && args == nil {
			args = append([]*Term(nil), t.Args...)
		}
		if args != nil {
			args[i] = b
		}
	}
	if args == nil {
		return t
	}
	return rebuild(t, args)
}

// Simp simplifies t under the literals and equalities already assumed.
func (s *State) Simp(t *Term) *Term {
	if t.IsLit() {
		return t
	}
	if len(s.subst) > 0 {
		t = s.shallowSubst(t, 2)
	}
	if v, ok := s.lits[t]; ok {
		return Bool(v)
	}
	if t.Op == "not" {
		if v, ok := s.lits[t.Args[0]]; ok {
			return Bool(!v)
		}
	}
	if t.Op == "and" || t.Op == "or" {
		var args []*Term
		ch := false
		for _, a := range t.Args {
			x, neg := a, false
			if x.Op == "not" {
				x, neg = x.Args[0], true
			}
			if v, ok := s.lits[x]; ok {
				args = append(args, Bool(v != neg))
				ch = true
			} else {
				args = append(args, a)
			}
		}
		if ch {
			if t.Op == "and" {
				t = And(args...)
			} else {
				t = Or(args...)
			}
		}
	}
	return t
}

func (s *State) Infeasible() bool {
	for _, p := range s.pc {
		if p == False {
			return true
		}
	}
	return false
}

// Mem returns the current memory array for leaf sort srt.
func (s *State) Mem(srt string) *Term {
	k := "M:" + srt
	if m, ok := s.mem[k]; ok {
		return m
	}
	m := Leaf("M0_"+sortKey(srt), SArr(SLoc, srt))
	if s.epoch > 0 {
		// first touched after an unframed havoc: nothing is known about it
		m = Fresh("Mh_late_"+sortKey(srt), SArr(SLoc, srt))
	}
	s.mem[k] = m
	return m
}
func (s *State) SetMem(srt string, m *Term) { s.mem["M:"+srt] = m }

func (s *State) Load(loc *Term, srt string) *Term {
	if bypassImmutable && ctorOf(loc) == "mkloc" && loc.Args[0].IntV != nil && immutableGlobalIDs[loc.Args[0].IntV.Int64()] {
		// a package-level variable that is only assigned by its package's
		// initialiser: its value is the same in every state
		return Select(Leaf("M0_"+sortKey(srt), SArr(SLoc, srt)), loc)
	}
	t := s.Sel(s.Mem(srt), loc)
	if r, ok := s.subst[t]; ok && !r.IsLit() {
		return r
	}
	return t
}
func (s *State) Store(loc *Term, v *Term) {
	s.SetMem(v.Sort, Store(s.Mem(v.Sort), loc, v))
}

// map memories
func (s *State) MapHas(ks string) *Term {
	k := "MH:" + ks
	if m, ok := s.mem[k]; ok {
		return m
	}
	m := Leaf("MH0_"+sortKey(ks), SArr(SLoc, SArr(ks, SBool)))
	if s.epoch > 0 {
		m = Fresh("MHh_late_"+sortKey(ks), SArr(SLoc, SArr(ks, SBool)))
	}
	s.mem[k] = m
	return m
}
func (s *State) MapVal(ks string, j int, vs string) *Term {
	k := fmt.Sprintf("MV:%s:%d:%s", ks, j, vs)
	if m, ok := s.mem[k]; ok {
		return m
	}
	m := Leaf(fmt.Sprintf("MV0_%s_%d_%s", sortKey(ks), j, sortKey(vs)), SArr(SLoc, SArr(ks, vs)))
	if s.epoch > 0 {
		m = Fresh(fmt.Sprintf("MVh_late_%s_%d_%s", sortKey(ks), j, sortKey(vs)), SArr(SLoc, SArr(ks, vs)))
	}
	s.mem[k] = m
	return m
}

// HavocMem replaces every memory array (optionally only those whose key
// passes keep) by a fresh constant.
func (s *State) HavocMem(filter func(key string) bool) {
	if filter == nil {
		s.epoch++
	}
	var keys []string
	for k := range s.mem {
		keys = append(keys, k)
	}
	sort.Strings(keys)
	for _, k := range keys {
		if filter != nil && !filter(k) {
			continue
		}
		s.mem[k] = Fresh("Mh_"+sortKey(k), s.mem[k].Sort)
	}
}

// NewObj allocates a fresh object id.
func (s *State) NewObj(tag string) *Term {
	o := Fresh("obj_"+tag, SInt)
	objLeaves[o] = true
	s.pc = append(s.pc, App(">", SBool, o, s.water))
	rankLeaf(o)
	s.Assume(IntCmp(">", o, IntLit(0)))
	s.water = o
	return o
}

// KnownLoc assumes a pointer obtained from the environment or the heap refers
// to an already allocated object.
func (s *State) KnownLoc(l *Term) {
	if l == NilLoc || ctorOf(l) == "mkloc" && l.Args[0].IntV != nil {
		return
	}
	// raw terms: these base facts must reach the solver even when the
	// engine itself can fold the comparison
	s.pc = append(s.pc, App("<=", SBool, LObj(l), s.water), App(">=", SBool, LObj(l), IntLit(0)))
}

type deferred struct {
	fn   *Value
	args []*Value
	call *ssa.CallCommon
}

type Frame struct {
	fn       *ssa.Function
	vals     map[ssa.Value]*Value
	defers   []deferred
	kRet     func(st *State, res []*Value)
	kPanic   func(st *State, pv *Term)
	depth    int
	ct       *Contract
	inLoop   map[*ssa.BasicBlock]int // header -> 1 after invariant assumed
	entry    map[string]*Value // contract-visible names at entry
	mode     string            // nopanic | panics | ignore
	loopSnap map[*ssa.BasicBlock]*loopSnapshot
	entryState *State
	specVars map[string]*Value
	cur      *ssa.BasicBlock
}

type loopSnapshot struct {
	dec     *Term
	pre     *State            // state at loop entry (before havoc)
	headMem map[string]*Term  // memories right after havoc + assume
	headState *State          // the state at the loop head (for memories first touched inside the body)
	water   *Term             // watermark at loop head
	objs    []*Term           // objects the loop may modify
	flocs   []*Term           // exact locations the loop may modify
	framed  bool
	summarized bool
	spec    *LoopSpec
	ord     string
	labelTerm *Term // label-by expression evaluated at the loop head
	head       *State
	headLookup func(string) *Value
	allocs0 *Term
	preLookup func(string) *Value
}

func (f *Frame) Clone() *Frame {
	n := *f
	n.vals = make(map[ssa.Value]*Value, len(f.vals))
	for k, v := range f.vals {
		n.vals[k] = v
	}
	n.defers = append([]deferred(nil), f.defers...)
	n.inLoop = map[*ssa.BasicBlock]int{}
	for k, v := range f.inLoop {
		n.inLoop[k] = v
	}
	n.loopSnap = map[*ssa.BasicBlock]*loopSnapshot{}
	for k, v := range f.loopSnap {
		n.loopSnap[k] = v
	}
	return &n
}

type Exec struct {
	W        *World
	obls     []*Obligation
	oblIdx   map[string]*Obligation
	notes    map[string]bool
	prefix   string // obligation name prefix for the current root
	steps    int
	maxSteps int
	// hooks
	CallHook   func(e *Exec, st *State, fr *Frame, cc *ssa.CallCommon, callee *ssa.Function, args []*Value, k func(*State, []*Value)) bool
	SafeMode   func(fn *ssa.Function) string
	LoopHook   func(e *Exec, st *State, fr *Frame, b *ssa.BasicBlock, pred *ssa.BasicBlock) (handled bool)
	InvokeHook func(e *Exec, st *State, fr *Frame, cc *ssa.CallCommon, recv *Value, args []*Value, k func(*State, []*Value)) bool
	InlineOK   func(fn *ssa.Function) bool
	AllocHook  func(e *Exec, st *State, fr *Frame, in ssa.Instruction, n *Term)
	RetHook    func(e *Exec, st *State, fr *Frame, res []*Value)
	BackEdgeHook func(e *Exec, st *State, fr *Frame, b *ssa.BasicBlock, label string, env *SpecEnv)
	LoopHeadHook func(e *Exec, st *State, fr *Frame, b *ssa.BasicBlock, env *SpecEnv)
	counter    map[string]int
	abortPaths int
	rootSpecVars map[string]*Value
	usedContracts map[string]bool
	paramMode bool
	SliceHook func(e *Exec, st *State, fr *Frame, in *ssa.Slice, x *Value, lo, hi *Term)
	PanicHook func(e *Exec, st *State, fr *Frame, in *ssa.Panic, pv *Term)
}

func NewExec(w *World) *Exec {
	return &Exec{W: w, oblIdx: map[string]*Obligation{}, notes: map[string]bool{}, maxSteps: 2000000, counter: map[string]int{}, usedContracts: map[string]bool{}}
}

func (e *Exec) Note(format string, a ...interface{}) {
	e.notes[fmt.Sprintf(format, a...)] = true
}

func (e *Exec) Notes() []string {
	var out []string
	for n := range e.notes {
		out = append(out, n)
	}
	sort.Strings(out)
	return out
}

// AddVC appends a verification condition to the named obligation.
func (e *Exec) AddVC(name, kind, fn string, st *State, negGoal *Term, desc string) *Obligation {
	o := e.oblIdx[name]
	if o == nil {
		o = &Obligation{Name: name, Kind: kind, Expect: "unsat", Func: fn, Meta: map[string]string{}}
		e.oblIdx[name] = o
		e.obls = append(e.obls, o)
	}
	// a conjunction is proved conjunct by conjunct; a universally quantified
	// goal is proved at a fresh skolem constant, with the path condition's own
	// universally quantified facts instantiated there (helps every solver).
	if negGoal.Op == "not" && negGoal.Args[0].Op == "and" {
		var last *Obligation
		for _, c := range negGoal.Args[0].Args {
			last = e.AddVC(name, kind, fn, st, Not(c), desc)
		}
		return last
	}
	var extra []*Term
	if negGoal.Op == "not" && negGoal.Args[0].Op == "forall" {
		q := negGoal.Args[0]
		m := map[*Term]*Term{}
		var sks []*Term
		for _, v := range q.QVars {
			c := Fresh("sk_"+v.Leaf, v.Sort)
			m[v] = c
			sks = append(sks, c)
		}
		negGoal = Not(Subst(q.Args[0], m))
		for _, c := range sks {
			extra = append(extra, st.skolemInstances(c)...)
		}
		for _, p := range st.pc {
			if p.Op == "forall" && len(p.QVars) == 1 {
				for _, c := range sks {
					if c.Sort == p.QVars[0].Sort {
						extra = append(extra, Subst(p.Args[0], map[*Term]*Term{p.QVars[0]: c}))
					}
				}
			}
		}
	}
	if negGoal != False && negGoal != True {
		// unit propagation of the path condition's literals into the goal
		m := map[*Term]*Term{}
		for _, p := range st.pc {
			if p.Op == "not" {
				m[p.Args[0]] = False
			} else if p.Op != "forall" && p.Op != "exists" {
				m[p] = True
			}
		}
		if len(m) > 0 {
			negGoal = shallowMapSubst(negGoal, m, 5)
		}
	}
	if negGoal == False {
		// trivially discharged; keep a record so counts are stable
		o.VCs = append(o.VCs, &VC{Asserts: []*Term{False}, Desc: desc})
		return o
	}
	// side facts for the memory cells the goal (and the instances) mention
	if len(st.qf) > 0 {
		seen := map[[2]*Term]bool{}
		save := st.qfDone
		st.qfDone = map[[2]*Term]bool{}
		more := st.instancesIn(negGoal, seen)
		for _, x := range extra {
			more = append(more, st.instancesIn(x, seen)...)
		}
		st.qfDone = save
		extra = append(extra, more...)
	}
	as := append(append(append([]*Term(nil), st.pc...), extra...), negGoal)
	o.VCs = append(o.VCs, &VC{Asserts: as, Desc: desc, Seq: nextVCSeq()})
	return o
}

// Assert records goal as an obligation under the current path and then
// assumes it (so one failure does not cascade).
func (e *Exec) Assert(name, kind, fn string, st *State, goal *Term, desc string) {
	e.AddVC(name, kind, fn, st, Not(goal), desc)
	st.Assume(goal)
}

// ---- running a function

type Outcome struct {
	St     *State
	Res    []*Value
	Panic  *Term // non-nil: the function panicked with this value
	Frame  *Frame
	Abort  string
	Labels []string
}

// Run executes fn on args from state st and returns all path outcomes.
func (e *Exec) Run(fn *ssa.Function, args []*Value, st *State, ct *Contract) []Outcome {
	var outs []Outcome
	e.call(st, fn, args, nil, 0, ct,
		func(st *State, res []*Value) { outs = append(outs, Outcome{St: st, Res: res}) },
		func(st *State, pv *Term) { outs = append(outs, Outcome{St: st, Panic: pv}) })
	return outs
}

func (e *Exec) call(st *State, fn *ssa.Function, args []*Value, bindings []*Value, depth int, ct *Contract,
	kRet func(*State, []*Value), kPanic func(*State, *Term)) {
	if len(fn.Blocks) == 0 {
		panic("call: no body for " + fn.String())
	}
	fr := &Frame{fn: fn, vals: map[ssa.Value]*Value{}, kRet: kRet, kPanic: kPanic, depth: depth, ct: ct,
		inLoop: map[*ssa.BasicBlock]int{}, loopSnap: map[*ssa.BasicBlock]*loopSnapshot{}}
	fr.mode = "panics"
	if e.SafeMode != nil {
		fr.mode = e.SafeMode(fn)
	}
	for i, p := range fn.Params {
		fr.vals[p] = args[i]
	}
	for i, fv := range fn.FreeVars {
		fr.vals[fv] = bindings[i]
	}
	if ct != nil && ct.Mode != "" && e.SafeMode == nil {
		fr.mode = ct.Mode
	}
	if depth == 0 || (ct != nil && len(ct.Loops) > 0) {
		fr.entryState = st.Clone()
	}
	if e.rootSpecVars != nil && depth == 0 {
		fr.specVars = e.rootSpecVars
	}
	e.runBlock(st, fr, fn.Blocks[0], nil)
}

func (e *Exec) budget() bool {
	e.steps++
	return e.steps < e.maxSteps
}

func isBackEdge(from, to *ssa.BasicBlock) bool {
	// to dominates from  => back edge
	return to.Dominates(from)
}

func isLoopHeader(b *ssa.BasicBlock) bool {
	for _, p := range b.Preds {
		if isBackEdge(p, b) {
			return true
		}
	}
	return false
}

func (e *Exec) runBlock(st *State, fr *Frame, b, pred *ssa.BasicBlock) {
	if st.Infeasible() {
		return
	}
	if traceOn && e.steps%20000 == 0 {
		fmt.Fprintf(os.Stderr, "trace: steps=%d obls=%d fn=%s block=%d depth=%d pc=%d\n", e.steps, len(e.obls), fr.fn.Name(), b.Index, fr.depth, len(st.pc))
	}
	if !e.budget() {
		e.Note("step budget exhausted in %s", fr.fn)
		e.abortPaths++
		return
	}
	fr.cur = b
	if traceOn && fr.depth == 0 {
		st.trail = append(append([]int(nil), st.trail...), b.Index)
	}
	if isLoopHeader(b) {
		if e.LoopHook != nil && e.LoopHook(e, st, fr, b, pred) {
			return
		}
		if e.loopCut(st, fr, b, pred) {
			return
		}
	}
	// phis
	if pred != nil {
		pi := -1
		for i, p := range b.Preds {
			if p == pred {
				pi = i
				break
			}
		}
		newv := map[ssa.Value]*Value{}
		for _, in := range b.Instrs {
			phi, ok := in.(*ssa.Phi)
			if !ok {
				break
			}
			if _, done := fr.vals[phi]; done && fr.inLoop[b] == 2 {
				continue
			}
			newv[phi] = e.val(st, fr, phi.Edges[pi])
		}
		for k, v := range newv {
			fr.vals[k] = v
		}
		if fr.inLoop[b] == 2 {
			fr.inLoop[b] = 1
		}
	}
	e.runFrom(st, fr, b, 0)
}

func (e *Exec) runFrom(st *State, fr *Frame, b *ssa.BasicBlock, idx int) {
	for i := idx; i < len(b.Instrs); i++ {
		in := b.Instrs[i]
		if _, ok := in.(*ssa.Phi); ok {
			continue
		}
		if st.Infeasible() {
			return
		}
		cont, forked := e.step(st, fr, b, i, in)
		if forked || !cont {
			return
		}
	}
}

// resume continues after instruction i of block b on a cloned frame.
func (e *Exec) resume(st *State, fr *Frame, b *ssa.BasicBlock, i int) {
	e.runFrom(st, fr.Clone(), b, i+1)
}

// ---- values

func (e *Exec) val(st *State, fr *Frame, v ssa.Value) *Value {
	if x, ok := fr.vals[v]; ok {
		return x
	}
	switch v := v.(type) {
	case *ssa.Const:
		return e.constVal(v)
	case *ssa.Function:
		return &Value{T: v.Type(), L: []*Term{e.fnLoc(v)}, Fn: v}
	case *ssa.Global:
		return &Value{T: v.Type(), L: []*Term{e.globalLoc(v)}}
	case *ssa.Builtin:
		return &Value{T: v.Type(), Bi: v}
	}
	panic(fmt.Sprintf("val: no value for %s (%T) in %s", v.Name(), v, fr.fn))
}

var globalIDs = map[string]int{}

func (e *Exec) globalLoc(g *ssa.Global) *Term {
	k := g.String()
	id, ok := globalIDs[k]
	if !ok {
		id = -(len(globalIDs) + 10)
		globalIDs[k] = id
		if e.W != nil && e.W.globalImmutable(g) {
			immutableGlobalIDs[int64(id)] = true
		}
	}
	return MkLoc(IntLit(int64(id)), IntLit(0), BV64(0))
}

var immutableGlobalIDs = map[int64]bool{}

func (e *Exec) fnLoc(f *ssa.Function) *Term {
	k := "func:" + f.String()
	id, ok := globalIDs[k]
	if !ok {
		id = -(len(globalIDs) + 10)
		globalIDs[k] = id
	}
	return MkLoc(IntLit(int64(id)), IntLit(0), BV64(0))
}

func (e *Exec) constVal(c *ssa.Const) *Value {
	T := c.Type()
	if c.Value == nil {
		return &Value{T: T, L: zeroLeaves(T)}
	}
	switch u := T.Underlying().(type) {
	case *types.Basic:
		switch {
		case u.Info()&types.IsBoolean != 0:
			return &Value{T: T, L: []*Term{Bool(constant.BoolVal(c.Value))}}
		case u.Info()&types.IsInteger != 0:
			w := bvWidth(leafSorts(T)[0])
			bi, _ := new(big.Int).SetString(c.Value.ExactString(), 10)
			if bi == nil {
				// constant expressed as float (e.g. 1e6 typed int)
				f, _ := constant.Float64Val(c.Value)
				bi = big.NewInt(int64(f))
			}
			return &Value{T: T, L: []*Term{BVLit(bi, w)}}
		case u.Info()&types.IsFloat != 0:
			f, _ := constant.Float64Val(c.Value)
			if u.Kind() == types.Float32 {
				return &Value{T: T, L: []*Term{FPLit32(math.Float32bits(float32(f)))}}
			}
			return &Value{T: T, L: []*Term{FPLit64(math.Float64bits(f))}}
		case u.Info()&types.IsString != 0:
			return &Value{T: T, L: []*Term{StrLit(constant.StringVal(c.Value))}}
		}
	}
	panic("constVal: unsupported const " + c.String())
}

// ---- memory access by type

func (e *Exec) loadT(st *State, loc *Term, T types.Type) []*Term {
	srts := leafSorts(T)
	out := make([]*Term, len(srts))
	for j, s := range srts {
		out[j] = st.Load(LocField(loc, j), s)
		if s == SLoc && !out[j].Bound {
			st.KnownLoc(out[j])
		}
	}
	if _, ok := T.Underlying().(*types.Slice); ok && !out[1].Bound && !out[2].Bound {
		// run-time invariant of every slice value: 0 <= len <= cap < 2^47
		st.Assume(And(BVCmp("bvsge", out[1], BV64(0)), BVCmp("bvsle", out[1], out[2]), BVCmp("bvslt", out[2], BV64(1<<47))))
		st.Assume(Implies(Eq(out[0], NilLoc), Eq(out[2], BV64(0))))
	}
	return out
}

func (e *Exec) storeT(st *State, loc *Term, L []*Term) {
	for j, v := range L {
		st.Store(LocField(loc, j), v)
	}
}

// boxValue converts a concrete-typed value into a Val (MakeInterface).
func (e *Exec) boxValue(st *State, v *Value) *Term {
	T := types.Unalias(v.T)
	if types.IsInterface(T) {
		if isNamed(T, "reflect", "Type") {
			return Ite(Eq(v.L[0], IntLit(0)), VNil, VCtor("VPtr", IntLit(99), MkLoc(v.L[0], IntLit(0), BV64(0))))
		}
		return v.L[0]
	}
	if isNamed(T, "reflect", "Value") {
		o := st.NewObj("boxrv")
		loc := MkLoc(o, IntLit(0), BV64(0))
		st.Store(loc, v.L[0])
		return VCtor("VBox", typeCodeTerm(T), loc)
	}
	switch T.Underlying().(type) {
	case *types.Struct, *types.Array:
		o := st.NewObj("box")
		loc := MkLoc(o, IntLit(0), BV64(0))
		e.storeT(st, loc, v.L)
		return VCtor("VBox", typeCodeTerm(T), loc)
	}
	return boxSimple(T, v.L)
}

func (e *Exec) unboxValue(st *State, T types.Type, v *Term) []*Term {
	T = types.Unalias(T)
	if isNamed(T, "reflect", "Value") {
		return []*Term{st.Load(VSel("box_of", v), SRV)}
	}
	switch T.Underlying().(type) {
	case *types.Struct, *types.Array:
		return e.loadT(st, VSel("box_of", v), T)
	}
	return unboxSimple(T, v)
}

// ---- panics

// mayPanic handles a potentially panicking instruction according to the
// frame's safety mode. It returns false if the ok-path is infeasible.
// In "panics" mode the panic path is explored through the frame's defers.
func (e *Exec) mayPanic(st *State, fr *Frame, cond *Term, kind string, in ssa.Instruction, pv *Term) bool {
	cond = st.Simp(cond)
	if cond == False {
		return true
	}
	switch fr.mode {
	case "nopanic":
		n := e.siteName(fr, kind, in)
		e.AddVC(n, "safe", fr.fn.String(), st, cond, kind+" at "+e.sitePos(fr, in))
		st.Assume(Not(cond))
	case "ignore":
		e.Note("assumed: no %s panic in %s", kind, fr.fn)
		st.Assume(Not(cond))
	default:
		ps := st.Clone()
		ps.Assume(cond)
		if !ps.Infeasible() {
			if pv == nil {
				pv = VCtor("VBox", IntLit(98), MkLoc(IntLit(-1), IntLit(int64(panicKindCode(kind))), BV64(0)))
			}
			e.doPanic(ps, fr.Clone(), pv)
		}
		st.Assume(Not(cond))
	}
	return !st.Infeasible()
}

var panicKinds = map[string]int{}

func panicKindCode(k string) int {
	if c, ok := panicKinds[k]; ok {
		return c
	}
	panicKinds[k] = len(panicKinds) + 1
	return panicKinds[k]
}

// siteName builds a stable site label: kind + ordinal of that kind within the function.
func (e *Exec) siteName(fr *Frame, kind string, in ssa.Instruction) string {
	return fmt.Sprintf("%s/safe:%s", shortName(fr.fn), kind)
}

func (e *Exec) sitePos(fr *Frame, in ssa.Instruction) string {
	if in == nil {
		return fnName(fr.fn)
	}
	p := e.W.Fset.Position(in.Pos())
	if !p.IsValid() {
		if v, ok := in.(ssa.Value); ok {
			return fnName(fr.fn) + ":" + v.Name()
		}
		return fnName(fr.fn)
	}
	return fmt.Sprintf("%s:%d", p.Filename, p.Line)
}

var siteOrdCache = map[*ssa.Function]map[ssa.Instruction]int{}

// siteOrdinal numbers instructions of the same Go type within a function in
// source-position order (stable under unrelated edits elsewhere).
func siteOrdinal(fn *ssa.Function, kind string, in ssa.Instruction) int {
	m := siteOrdCache[fn]
	if m == nil {
		m = map[ssa.Instruction]int{}
		counts := map[string]int{}
		for _, b := range fn.Blocks {
			for _, i := range b.Instrs {
				k := fmt.Sprintf("%T", i)
				counts[k]++
				m[i] = counts[k]
			}
		}
		siteOrdCache[fn] = m
	}
	return m[in]
}

func fnName(fn *ssa.Function) string {
	s := fn.String()
	s = strings.ReplaceAll(s, "github.com/antonmedv/expr/", "")
	s = strings.ReplaceAll(s, "github.com/antonmedv/expr.", "expr.")
	return s
}

// doPanic unwinds: run deferred calls of this frame with panicVal set, then
// either resume at the Recover block (if recovered) or propagate.
func (e *Exec) doPanic(st *State, fr *Frame, pv *Term) {
	if e.panicSummarized(st, fr, pv) {
		return
	}
	st.panicking = pv
	e.runDefers(st, fr, func(st *State, fr *Frame) {
		if st.panicking == nil {
			if fr.fn.Recover != nil {
				e.runBlock(st, fr, fr.fn.Recover, nil)
			} else {
				// recovered without named results: returns zero values
				var res []*Value
				rs := fr.fn.Signature.Results()
				for i := 0; i < rs.Len(); i++ {
					res = append(res, &Value{T: rs.At(i).Type(), L: zeroLeaves(rs.At(i).Type())})
				}
				fr.kRet(st, res)
			}
			return
		}
		pv := st.panicking
		fr.kPanic(st, pv)
	})
}

func (e *Exec) runDefers(st *State, fr *Frame, k func(*State, *Frame)) {
	if len(fr.defers) == 0 {
		k(st, fr)
		return
	}
	d := fr.defers[len(fr.defers)-1]
	fr.defers = fr.defers[:len(fr.defers)-1]
	e.invoke(st, fr, d.call, d.fn, d.args, true,
		func(st *State, _ []*Value) {
			e.runDefers(st, fr.Clone(), k)
		})
}

// ---- instruction step

func (e *Exec) step(st *State, fr *Frame, b *ssa.BasicBlock, i int, in ssa.Instruction) (cont bool, forked bool) {
	switch in := in.(type) {
	case *ssa.DebugRef:
		return true, false
	case *ssa.Alloc:
		T := in.Type().(*types.Pointer).Elem()
		o := st.NewObj(in.Comment)
		if addrPrivate(in) {
			privateObjLeaves[o] = true
		}
		loc := MkLoc(o, IntLit(0), BV64(0))
		if arr, ok := T.Underlying().(*types.Array); ok {
			z := zeroLeaves(arr.Elem())
			if arr.Len() <= 16 {
				for k := int64(0); k < arr.Len(); k++ {
					e.storeT(st, LocIndex(loc, BV64(k)), z)
				}
			} else {
				e.assumeZeroed(st, loc, arr.Elem())
			}
		} else {
			e.storeT(st, loc, zeroLeaves(T))
		}
		fr.vals[in] = &Value{T: in.Type(), L: []*Term{loc}}
	case *ssa.BinOp:
		x, y := e.val(st, fr, in.X), e.val(st, fr, in.Y)
		r, pc := e.binop(st, in.Op, x, y, in.Type())
		if pc != nil {
			if !e.mayPanic(st, fr, pc, "divide-by-zero", in, StrPanic("runtime error: integer divide by zero")) {
				return false, false
			}
		}
		fr.vals[in] = r
	case *ssa.UnOp:
		x := e.val(st, fr, in.X)
		switch in.Op {
		case token.MUL:
			loc := x.One()
			if !derivedAddr(in.X) && !e.mayPanic(st, fr, Eq(loc, NilLoc), "nil-deref", in, nil) {
				return false, false
			}
			fr.vals[in] = &Value{T: in.Type(), L: e.loadT(st, loc, in.Type())}
		case token.NOT:
			fr.vals[in] = &Value{T: in.Type(), L: []*Term{Not(x.One())}}
		case token.SUB:
			if isFloat(in.Type()) {
				fr.vals[in] = &Value{T: in.Type(), L: []*Term{App("fp.neg", x.One().Sort, x.One())}}
			} else {
				fr.vals[in] = &Value{T: in.Type(), L: []*Term{BVNeg(x.One())}}
			}
		case token.XOR:
			fr.vals[in] = &Value{T: in.Type(), L: []*Term{BVNot(x.One())}}
		case token.ARROW:
			e.Note("unsupported: channel receive in %s (result havoc)", fr.fn)
			fr.vals[in] = e.havocValue(st, in.Type(), "recv")
		default:
			panic("unop " + in.Op.String())
		}
	case *ssa.Call:
		e.doCall(st, fr, b, i, in)
		return false, true
	case *ssa.ChangeInterface:
		x := e.val(st, fr, in.X)
		if isNamed(in.X.Type(), "reflect", "Type") && !isNamed(in.Type(), "reflect", "Type") {
			// reflect.Type is modelled as a type code; as a general interface value it is boxed
			fr.vals[in] = &Value{T: in.Type(), L: []*Term{e.boxValue(st, x)}}
		} else {
			fr.vals[in] = &Value{T: in.Type(), L: x.L}
		}
	case *ssa.ChangeType:
		x := e.val(st, fr, in.X)
		fr.vals[in] = &Value{T: in.Type(), L: x.L, Fn: x.Fn, Bnd: x.Bnd}
	case *ssa.Convert:
		fr.vals[in] = e.convert(st, e.val(st, fr, in.X), in.Type())
	case *ssa.Extract:
		t := e.val(st, fr, in.Tuple)
		tt := in.Tuple.Type().(*types.Tuple)
		off := 0
		for k := 0; k < in.Index; k++ {
			off += numLeaves(tt.At(k).Type())
		}
		n := numLeaves(tt.At(in.Index).Type())
		fr.vals[in] = &Value{T: in.Type(), L: t.L[off : off+n]}
	case *ssa.Field:
		x := e.val(st, fr, in.X)
		stt := in.X.Type().Underlying().(*types.Struct)
		off := fieldLeafOffset(stt, in.Field)
		n := numLeaves(stt.Field(in.Field).Type())
		fr.vals[in] = &Value{T: in.Type(), L: x.L[off : off+n]}
	case *ssa.FieldAddr:
		x := e.val(st, fr, in.X).One()
		if !e.mayPanic(st, fr, Eq(x, NilLoc), "nil-deref", in, nil) {
			return false, false
		}
		stt := in.X.Type().Underlying().(*types.Pointer).Elem().Underlying().(*types.Struct)
		fr.vals[in] = &Value{T: in.Type(), L: []*Term{LocField(x, fieldLeafOffset(stt, in.Field))}}
	case *ssa.IndexAddr:
		x := e.val(st, fr, in.X)
		idx := e.asInt64(e.val(st, fr, in.Index))
		var base, ln *Term
		switch u := in.X.Type().Underlying().(type) {
		case *types.Slice:
			base, ln = x.L[0], x.L[1]
		case *types.Pointer:
			arr := u.Elem().Underlying().(*types.Array)
			base, ln = x.L[0], BV64(arr.Len())
			if !e.mayPanic(st, fr, Eq(base, NilLoc), "nil-deref", in, nil) {
				return false, false
			}
		default:
			panic("IndexAddr on " + in.X.Type().String())
		}
		oob := Not(BVCmp("bvult", idx, ln))
		if !e.mayPanic(st, fr, oob, "index", in, StrPanic("runtime error: index out of range")) {
			return false, false
		}
		fr.vals[in] = &Value{T: in.Type(), L: []*Term{LocIndex(base, idx)}}
	case *ssa.Index:
		x := e.val(st, fr, in.X)
		idx := e.asInt64(e.val(st, fr, in.Index))
		switch u := in.X.Type().Underlying().(type) {
		case *types.Basic: // string
			s := x.One()
			oob := Not(BVCmp("bvult", idx, SLen(s)))
			if !e.mayPanic(st, fr, oob, "index", in, StrPanic("runtime error: index out of range")) {
				return false, false
			}
			fr.vals[in] = &Value{T: in.Type(), L: []*Term{SByte(s, idx)}}
		case *types.Array:
			if idx.BV == nil {
				panic("Index on array value with symbolic index")
			}
			n := numLeaves(u.Elem())
			k := int(idx.BV.Int64())
			fr.vals[in] = &Value{T: in.Type(), L: x.L[k*n : (k+1)*n]}
		default:
			panic("Index on " + in.X.Type().String())
		}
	case *ssa.Lookup:
		if !e.lookup(st, fr, in) {
			return false, false
		}
	case *ssa.MakeInterface:
		x := e.val(st, fr, in.X)
		fr.vals[in] = &Value{T: in.Type(), L: []*Term{e.boxValue(st, x)}}
		if isNamed(in.Type(), "reflect", "Type") {
			panic("MakeInterface to reflect.Type")
		}
	case *ssa.MakeClosure:
		var b []*Value
		for _, x := range in.Bindings {
			b = append(b, e.val(st, fr, x))
		}
		fn := in.Fn.(*ssa.Function)
		o := st.NewObj("closure")
		cv := &Value{T: in.Type(), L: []*Term{MkLoc(o, IntLit(0), BV64(0))}, Fn: fn, Bnd: b}
		closureByObj[o] = cv
		fr.vals[in] = cv
	case *ssa.MakeMap:
		o := st.NewObj("map")
		loc := MkLoc(o, IntLit(0), BV64(0))
		mt := in.Type().Underlying().(*types.Map)
		ks := leafSorts(mt.Key())
		if len(ks) != 1 {
			e.Note("unsupported: map with composite key %s in %s", mt, fr.fn)
		} else {
			empty := App("(as const "+SArr(ks[0], SBool)+")", SArr(ks[0], SBool), False)
			st.mem["MH:"+ks[0]] = Store(st.MapHas(ks[0]), loc, empty)
		}
		fr.vals[in] = &Value{T: in.Type(), L: []*Term{loc}}
	case *ssa.MakeSlice:
		ln := e.asInt64(e.val(st, fr, in.Len))
		cp := e.asInt64(e.val(st, fr, in.Cap))
		bad := Or(BVCmp("bvslt", ln, BV64(0)), BVCmp("bvsgt", ln, cp), BVCmp("bvsgt", cp, BV64(1<<47)))
		if !e.mayPanic(st, fr, bad, "makeslice", in, StrPanic("runtime error: makeslice: len out of range")) {
			return false, false
		}
		o := st.NewObj("slice")
		loc := MkLoc(o, IntLit(0), BV64(0))
		if e.AllocHook != nil {
			e.AllocHook(e, st, fr, in, ln)
		}
		e.assumeZeroed(st, loc, in.Type().Underlying().(*types.Slice).Elem())
		fr.vals[in] = &Value{T: in.Type(), L: []*Term{loc, ln, cp}}
	case *ssa.Slice:
		if !e.slice(st, fr, in) {
			return false, false
		}
	case *ssa.TypeAssert:
		if !e.typeAssert(st, fr, in) {
			return false, false
		}
	case *ssa.Range:
		x := e.val(st, fr, in.X)
		fr.vals[in] = &Value{T: in.Type(), L: append([]*Term{}, x.L...)}
	case *ssa.Next:
		e.next(st, fr, in)
	case *ssa.Store:
		loc := e.val(st, fr, in.Addr).One()
		if !derivedAddr(in.Addr) && !e.mayPanic(st, fr, Eq(loc, NilLoc), "nil-deref", in, nil) {
			return false, false
		}
		e.storeGuards(st, fr, in)
		e.storeT(st, loc, e.val(st, fr, in.Val).L)
	case *ssa.MapUpdate:
		m := e.val(st, fr, in.Map).One()
		if !e.mayPanic(st, fr, Eq(m, NilLoc), "nil-map-write", in, StrPanic("assignment to entry in nil map")) {
			return false, false
		}
		k := e.val(st, fr, in.Key)
		v := e.val(st, fr, in.Value)
		if len(k.L) != 1 {
			e.Note("unsupported: composite map key in %s", fr.fn)
			return true, false
		}
		ks := k.L[0].Sort
		has := st.MapHas(ks)
		if e.AllocHook != nil {
			e.AllocHook(e, st, fr, in, BV64(1))
		}
		st.mem["MH:"+ks] = Store(has, m, Store(st.Sel(has, m), k.L[0], True))
		for j, lv := range v.L {
			mv := st.MapVal(ks, j, lv.Sort)
			st.mem[fmt.Sprintf("MV:%s:%d:%s", ks, j, lv.Sort)] = Store(mv, m, Store(st.Sel(mv, m), k.L[0], lv))
		}
	case *ssa.If:
		c := st.Simp(e.val(st, fr, in.Cond).One())
		tb, fb := b.Succs[0], b.Succs[1]
		if c == True {
			e.runBlock(st, fr, tb, b)
			return false, true
		}
		if c == False {
			e.runBlock(st, fr, fb, b)
			return false, true
		}
		s2 := st.Clone()
		f2 := fr.Clone()
		st.Assume(c)
		e.runBlock(st, fr, tb, b)
		s2.Assume(Not(c))
		e.runBlock(s2, f2, fb, b)
		return false, true
	case *ssa.Jump:
		e.runBlock(st, fr, b.Succs[0], b)
		return false, true
	case *ssa.Return:
		var res []*Value
		for _, r := range in.Results {
			res = append(res, e.val(st, fr, r))
		}
		fr.kRet(st, res)
		return false, true
	case *ssa.Panic:
		pv := e.val(st, fr, in.X).One()
		if e.PanicHook != nil {
			e.PanicHook(e, st, fr, in, pv)
		}
		if st.ghost == nil {
			st.ghost = map[string]*Term{}
		}
		st.ghost["explicit-panic-in"] = StrLit(shortName(fr.fn)) // a panic statement of this function (not of a callee, not a run-time check)
		e.noExplicitPanicCheck(st, fr, in.Block())
		e.doPanic(st, fr, pv)
		return false, true
	case *ssa.Defer:
		var args []*Value
		for _, a := range in.Call.Args {
			args = append(args, e.val(st, fr, a))
		}
		var fv *Value
		if !in.Call.IsInvoke() {
			fv = e.val(st, fr, in.Call.Value)
		} else {
			fv = e.val(st, fr, in.Call.Value)
		}
		cc := in.Call
		fr.defers = append(fr.defers, deferred{fn: fv, args: args, call: &cc})
	case *ssa.RunDefers:
		e.runDefers(st, fr, func(st *State, fr2 *Frame) {
			e.runFrom(st, fr2, b, i+1)
		})
		return false, true
	case *ssa.Go, *ssa.Send, *ssa.Select, *ssa.MakeChan:
		e.Note("unsupported: concurrency instruction %T in %s (skipped)", in, fr.fn)
		if v, ok := in.(ssa.Value); ok {
			fr.vals[v] = e.havocValue(st, v.Type(), "conc")
		}
	case *ssa.SliceToArrayPointer, *ssa.MultiConvert:
		e.Note("unsupported: %T in %s (result havoc)", in, fr.fn)
		fr.vals[in.(ssa.Value)] = e.havocValue(st, in.(ssa.Value).Type(), "conv")
	default:
		panic(fmt.Sprintf("step: unsupported instruction %T in %s", in, fr.fn))
	}
	return true, false
}

func StrPanic(msg string) *Term {
	// run-time errors are boxed error values; we only need a distinguishable Val
	return VCtor("VBox", IntLit(97), MkLoc(IntLit(-2), IntLit(int64(panicKindCode(msg))), BV64(0)))
}

func (e *Exec) assumeZeroed(st *State, loc *Term, elem types.Type) {
	// the fresh object's cells are zero: modelled as a new array that agrees
	// with the old one outside the object and is zero inside it
	for j, s := range leafSorts(elem) {
		old := st.Mem(s)
		nw := Fresh("Mz_"+sortKey(s), old.Sort)
		l := BoundVar(fmt.Sprintf("zl%d", freshSeqNext()), SLoc)
		inObj := And(Eq(LObj(l), LObj(loc)), Eq(LLeaf(l), IntAdd(LLeaf(loc), IntLit(int64(j)))))
		st.AddQFact(nw, &qfact{v: l, guard: inObj, lhs: Select(nw, l), rhs: zeroOfSort(s)})
		st.AddQFact(nw, &qfact{v: l, guard: Not(Eq(LObj(l), LObj(loc))), lhs: Select(nw, l), rhs: Select(old, l)})
		st.SetMem(s, nw)
	}
}

func freshSeqNext() int { freshSeq++; return freshSeq }

func (e *Exec) havocValue(st *State, T types.Type, tag string) *Value {
	var L []*Term
	for _, s := range leafSorts(T) {
		f := Fresh("hv_"+tag, s)
		if s == SLoc {
			if e.paramMode {
				// a pointer parameter at function entry: some object that
				// existed before any allocation of this activation (or nil)
				po := Fresh("pre_"+tag, SInt)
				preObjLeaves[po] = true
				f = MkLoc(po, Fresh("leaf_"+tag, SInt), Fresh("idx_"+tag, SBV(64)))
			}
			st.KnownLoc(f)
		}
		L = append(L, f)
	}
	v := &Value{T: T, L: L}
	if _, ok := T.Underlying().(*types.Slice); ok {
		st.Assume(BVCmp("bvsge", L[1], BV64(0)))
		st.Assume(BVCmp("bvsle", L[1], L[2]))
		st.Assume(BVCmp("bvslt", L[2], BV64(1<<47)))
	}
	if isString(T) {
		st.Assume(BVCmp("bvult", SLen(L[0]), BV64(1<<47)))
	}
	return v
}

// asInt64 widens an integer value to 64 bits according to its signedness.
func (e *Exec) asInt64(v *Value) *Term {
	t := v.One()
	w := bvWidth(t.Sort)
	if w == 64 {
		return t
	}
	if isSigned(v.T) {
		return SignExt(64-w, t)
	}
	return ZeroExt(64-w, t)
}

// ---- operators

func (e *Exec) binop(st *State, op token.Token, x, y *Value, rt types.Type) (*Value, *Term) {
	T := x.T
	mk := func(t *Term) *Value { return &Value{T: rt, L: []*Term{t}} }
	switch {
	case isBoolean(T) && len(x.L) == 1 && x.L[0].Sort == SBool:
		a, b := x.One(), y.One()
		switch op {
		case token.EQL:
			return mk(Eq(a, b)), nil
		case token.NEQ:
			return mk(Not(Eq(a, b))), nil
		case token.LAND, token.AND:
			return mk(And(a, b)), nil
		case token.LOR, token.OR:
			return mk(Or(a, b)), nil
		}
	case isString(T):
		a, b := x.One(), y.One()
		switch op {
		case token.ADD:
			return mk(SConcat(a, b)), nil
		case token.EQL:
			return mk(Eq(a, b)), nil
		case token.NEQ:
			return mk(Not(Eq(a, b))), nil
		case token.LSS:
			return mk(SLt(a, b)), nil
		case token.GTR:
			return mk(SLt(b, a)), nil
		case token.LEQ:
			return mk(Not(SLt(b, a))), nil
		case token.GEQ:
			return mk(Not(SLt(a, b))), nil
		}
	case isFloat(T):
		a, b := x.One(), y.One()
		switch op {
		case token.ADD:
			return mk(App("fp.add", a.Sort, RNE, a, b)), nil
		case token.SUB:
			return mk(App("fp.sub", a.Sort, RNE, a, b)), nil
		case token.MUL:
			return mk(App("fp.mul", a.Sort, RNE, a, b)), nil
		case token.QUO:
			return mk(App("fp.div", a.Sort, RNE, a, b)), nil
		case token.EQL:
			return mk(App("fp.eq", SBool, a, b)), nil
		case token.NEQ:
			return mk(Not(App("fp.eq", SBool, a, b))), nil
		case token.LSS:
			return mk(App("fp.lt", SBool, a, b)), nil
		case token.GTR:
			return mk(App("fp.gt", SBool, a, b)), nil
		case token.LEQ:
			return mk(App("fp.leq", SBool, a, b)), nil
		case token.GEQ:
			return mk(App("fp.geq", SBool, a, b)), nil
		}
	case isInteger(T):
		a, b := x.One(), y.One()
		sg := isSigned(T)
		w := bvWidth(a.Sort)
		cmp := func(s, u string) *Term {
			if sg {
				return BVCmp(s, a, b)
			}
			return BVCmp(u, a, b)
		}
		switch op {
		case token.ADD:
			return mk(BVBin("bvadd", a, b)), nil
		case token.SUB:
			return mk(BVBin("bvsub", a, b)), nil
		case token.MUL:
			return mk(BVBin("bvmul", a, b)), nil
		case token.QUO:
			z := Eq(b, BVu(0, w))
			if sg {
				return mk(App("bvsdiv", a.Sort, a, b)), z
			}
			return mk(App("bvudiv", a.Sort, a, b)), z
		case token.REM:
			z := Eq(b, BVu(0, w))
			if sg {
				return mk(App("bvsrem", a.Sort, a, b)), z
			}
			return mk(App("bvurem", a.Sort, a, b)), z
		case token.AND:
			return mk(BVBin("bvand", a, b)), nil
		case token.OR:
			return mk(BVBin("bvor", a, b)), nil
		case token.XOR:
			return mk(BVBin("bvxor", a, b)), nil
		case token.AND_NOT:
			return mk(BVBin("bvand", a, BVNot(b))), nil
		case token.SHL, token.SHR:
			// shift count may have a different width
			bw := bvWidth(b.Sort)
			sh := b
			if bw < w {
				sh = ZeroExt(w-bw, b)
			} else if bw > w {
				big := BVCmp("bvuge", b, BVu(uint64(w), bw))
				sh = Ite(big, BVu(uint64(w), w), Extract(w-1, 0, b))
			}
			if op == token.SHL {
				return mk(App("bvshl", a.Sort, a, sh)), nil
			}
			if sg {
				return mk(App("bvashr", a.Sort, a, sh)), nil
			}
			return mk(App("bvlshr", a.Sort, a, sh)), nil
		case token.EQL:
			return mk(Eq(a, b)), nil
		case token.NEQ:
			return mk(Not(Eq(a, b))), nil
		case token.LSS:
			return mk(cmp("bvslt", "bvult")), nil
		case token.GTR:
			return mk(cmp("bvsgt", "bvugt")), nil
		case token.LEQ:
			return mk(cmp("bvsle", "bvule")), nil
		case token.GEQ:
			return mk(cmp("bvsge", "bvuge")), nil
		}
	}
	// generic equality on other types (pointers, interfaces, structs...)
	if op == token.EQL || op == token.NEQ {
		var cs []*Term
		if types.IsInterface(x.T) && !types.IsInterface(y.T) {
			y = &Value{T: x.T, L: []*Term{e.boxValue(st, y)}}
		}
		if types.IsInterface(y.T) && !types.IsInterface(x.T) {
			x = &Value{T: y.T, L: []*Term{e.boxValue(st, x)}}
		}
		if len(x.L) != len(y.L) {
			panic(fmt.Sprintf("binop ==: leaf mismatch %v %v", x.T, y.T))
		}
		if _, ok := x.T.Underlying().(*types.Slice); ok {
			// slice == nil only
			cs = append(cs, Eq(x.L[0], y.L[0]))
		} else {
			for i := range x.L {
				cs = append(cs, Eq(x.L[i], y.L[i]))
			}
		}
		r := And(cs...)
		if op == token.NEQ {
			r = Not(r)
		}
		return mk(r), nil
	}
	panic(fmt.Sprintf("binop: unsupported %s on %s", op, T))
}

func (e *Exec) convert(st *State, x *Value, T types.Type) *Value {
	from, to := x.T.Underlying(), T.Underlying()
	mk := func(t *Term) *Value { return &Value{T: T, L: []*Term{t}} }
	fb, fok := from.(*types.Basic)
	tb, tok := to.(*types.Basic)
	if fok && tok {
		switch {
		case isInteger(from) && isInteger(to):
			a := x.One()
			fw, tw := bvWidth(a.Sort), bvWidth(leafSorts(T)[0])
			switch {
			case tw == fw:
				return mk(a)
			case tw < fw:
				return mk(Extract(tw-1, 0, a))
			case isSigned(from):
				return mk(SignExt(tw-fw, a))
			default:
				return mk(ZeroExt(tw-fw, a))
			}
		case isInteger(from) && isFloat(to):
			s := leafSorts(T)[0]
			op := "(_ to_fp 11 53)"
			if s == SF32 {
				op = "(_ to_fp 8 24)"
			}
			if !isSigned(from) {
				op = strings.Replace(op, "to_fp", "to_fp_unsigned", 1)
			}
			return mk(App(op, s, RNE, x.One()))
		case isFloat(from) && isInteger(to):
			w := bvWidth(leafSorts(T)[0])
			op := fmt.Sprintf("(_ fp.to_sbv %d)", w)
			if !isSigned(to) {
				op = fmt.Sprintf("(_ fp.to_ubv %d)", w)
			}
			return mk(App(op, SBV(w), RTZ, x.One()))
		case isFloat(from) && isFloat(to):
			s := leafSorts(T)[0]
			if s == x.One().Sort {
				return mk(x.One())
			}
			op := "(_ to_fp 11 53)"
			if s == SF32 {
				op = "(_ to_fp 8 24)"
			}
			return mk(App(op, s, RNE, x.One()))
		case isString(from) && isString(to):
			return mk(x.One())
		case isInteger(from) && isString(to):
			return mk(UF("rune2str", SStr, e.asInt64(x)))
		case fb.Kind() == types.UnsafePointer || tb.Kind() == types.UnsafePointer:
			e.Note("unsupported: unsafe.Pointer conversion (havoc)")
			return e.havocValue(st, T, "unsafe")
		}
	}
	// string <-> []byte / []rune
	if isString(from) {
		if sl, ok := to.(*types.Slice); ok {
			o := st.NewObj("str2slice")
			loc := MkLoc(o, IntLit(0), BV64(0))
			var ln *Term
			if b, ok := sl.Elem().Underlying().(*types.Basic); ok && b.Kind() == types.Uint8 {
				ln = SLen(x.One())
				i := BoundVar(fmt.Sprintf("ci%d", freshSeqNext()), SBV(64))
				st.Assume(Forall([]*Term{i}, Implies(BVCmp("bvult", i, ln),
					Eq(Select(st.Mem(SBV(8)), MkLoc(o, IntLit(0), i)), SByte(x.One(), i)))))
			} else {
				ln = UF("runecount", SBV(64), x.One())
				st.Assume(BVCmp("bvule", ln, SLen(x.One())))
				i := BoundVar(fmt.Sprintf("ci%d", freshSeqNext()), SBV(64))
				st.Assume(Forall([]*Term{i}, Implies(BVCmp("bvult", i, ln),
					Eq(Select(st.Mem(SBV(32)), MkLoc(o, IntLit(0), i)), UF("runeat", SBV(32), x.One(), i)))))
			}
			return &Value{T: T, L: []*Term{loc, ln, ln}}
		}
	}
	if sl, ok := from.(*types.Slice); ok && isString(to) {
		b, _ := sl.Elem().Underlying().(*types.Basic)
		tag := "bytes2str"
		if b != nil && b.Kind() != types.Uint8 {
			tag = "runes2str"
		}
		// content depends on memory: opaque function of (memory, ptr, len)
		srt := leafSorts(sl.Elem())[0]
		r := UF(tag, SStr, st.Mem(srt), x.L[0], x.L[1])
		if tag == "bytes2str" {
			st.Assume(Eq(SLen(r), x.L[1]))
		}
		return mk(r)
	}
	panic(fmt.Sprintf("convert: unsupported %s -> %s", x.T, T))
}

func (e *Exec) lookup(st *State, fr *Frame, in *ssa.Lookup) bool {
	x := e.val(st, fr, in.X)
	if isString(in.X.Type()) {
		idx := e.asInt64(e.val(st, fr, in.Index))
		s := x.One()
		if !e.mayPanic(st, fr, Not(BVCmp("bvult", idx, SLen(s))), "index", in, StrPanic("runtime error: index out of range")) {
			return false
		}
		fr.vals[in] = &Value{T: in.Type(), L: []*Term{SByte(s, idx)}}
		return true
	}
	mt := in.X.Type().Underlying().(*types.Map)
	k := e.val(st, fr, in.Index)
	if types.IsInterface(mt.Key()) && !types.IsInterface(in.Index.Type()) {
		k = &Value{T: mt.Key(), L: []*Term{e.boxValue(st, k)}}
	}
	m := x.One()
	var has *Term
	var vals []*Term
	if len(k.L) != 1 {
		e.Note("unsupported: composite map key lookup in %s (havoc)", fr.fn)
		has = Fresh("has", SBool)
		vals = e.havocValue(st, mt.Elem(), "mapv").L
	} else {
		ks := k.L[0].Sort
		has = And(Not(Eq(m, NilLoc)), Select(st.Sel(st.MapHas(ks), m), k.L[0]))
		z := zeroLeaves(mt.Elem())
		for j, s := range leafSorts(mt.Elem()) {
			v := Select(st.Sel(st.MapVal(ks, j, s), m), k.L[0])
			vals = append(vals, Ite(has, v, z[j]))
			if s == SLoc {
				st.KnownLoc(vals[j])
			}
		}
	}
	if in.CommaOk {
		fr.vals[in] = &Value{T: in.Type(), L: append(vals, has)}
	} else {
		fr.vals[in] = &Value{T: in.Type(), L: vals}
	}
	return true
}

func (e *Exec) slice(st *State, fr *Frame, in *ssa.Slice) bool {
	x := e.val(st, fr, in.X)
	var lo, hi *Term
	if in.Low != nil {
		lo = e.asInt64(e.val(st, fr, in.Low))
	} else {
		lo = BV64(0)
	}
	switch u := in.X.Type().Underlying().(type) {
	case *types.Basic: // string
		s := x.One()
		if in.High != nil {
			hi = e.asInt64(e.val(st, fr, in.High))
		} else {
			hi = SLen(s)
		}
		bad := Or(BVCmp("bvugt", lo, hi), BVCmp("bvugt", hi, SLen(s)))
		if !e.mayPanic(st, fr, bad, "slice-bounds", in, StrPanic("runtime error: slice bounds out of range")) {
			return false
		}
		r := SSlice(s, lo, hi)
		if lo.BV != nil && lo.BV.Sign() == 0 && hi == SLen(s) {
			r = s
		}
		if r != s {
			st.Assume(Eq(SLen(r), BVBin("bvsub", hi, lo)))
		}
		fr.vals[in] = &Value{T: in.Type(), L: []*Term{r}}
	case *types.Slice:
		ptr, ln, cp := x.L[0], x.L[1], x.L[2]
		if in.High != nil {
			hi = e.asInt64(e.val(st, fr, in.High))
		} else {
			hi = ln
		}
		if e.SliceHook != nil {
			e.SliceHook(e, st, fr, in, x, lo, hi)
		}
		mx := cp
		newcap := cp
		if in.Max != nil {
			newcap = e.asInt64(e.val(st, fr, in.Max))
		}
		bad := Or(BVCmp("bvugt", lo, hi), BVCmp("bvugt", hi, mx))
		if !e.mayPanic(st, fr, bad, "slice-bounds", in, StrPanic("runtime error: slice bounds out of range")) {
			return false
		}
		fr.vals[in] = &Value{T: in.Type(), L: []*Term{LocIndex(ptr, lo), BVBin("bvsub", hi, lo), BVBin("bvsub", newcap, lo)}}
	case *types.Pointer: // *array
		arr := u.Elem().Underlying().(*types.Array)
		n := BV64(arr.Len())
		if in.High != nil {
			hi = e.asInt64(e.val(st, fr, in.High))
		} else {
			hi = n
		}
		bad := Or(BVCmp("bvugt", lo, hi), BVCmp("bvugt", hi, n))
		if !e.mayPanic(st, fr, bad, "slice-bounds", in, StrPanic("runtime error: slice bounds out of range")) {
			return false
		}
		fr.vals[in] = &Value{T: in.Type(), L: []*Term{LocIndex(x.One(), lo), BVBin("bvsub", hi, lo), BVBin("bvsub", n, lo)}}
	default:
		panic("slice on " + in.X.Type().String())
	}
	return true
}

func (e *Exec) typeAssert(st *State, fr *Frame, in *ssa.TypeAssert) bool {
	x := e.val(st, fr, in.X)
	v := x.One()
	T := in.AssertedType
	if isNamed(in.X.Type(), "reflect", "Type") {
		e.Note("unsupported: type assertion on reflect.Type in %s", fr.fn)
		fr.vals[in] = e.havocValue(st, in.Type(), "ta")
		return true
	}
	if types.IsInterface(T) {
		// assertion to an interface type: succeeds iff the dynamic type implements it
		var ok *Term
		if iface, _ := T.Underlying().(*types.Interface); iface != nil && iface.NumMethods() == 0 {
			ok = Not(Eq(v, VNil))
		} else {
			ok = And(Not(Eq(v, VNil)), UF("implements_"+sanitize(typeKey(T)), SBool, v))
		}
		if in.CommaOk {
			fr.vals[in] = &Value{T: in.Type(), L: []*Term{Ite(ok, v, VNil), ok}}
			return true
		}
		if !e.mayPanic(st, fr, Not(ok), "type-assert", in, StrPanic("interface conversion")) {
			return false
		}
		fr.vals[in] = &Value{T: in.Type(), L: []*Term{v}}
		return true
	}
	ok := st.Simp(dynTypeTest(v, T))
	if in.CommaOk {
		L := e.unboxValue(st, T, v)
		z := zeroLeaves(T)
		for i := range L {
			L[i] = Ite(ok, L[i], z[i])
		}
		fr.vals[in] = &Value{T: in.Type(), L: append(L, ok)}
		return true
	}
	if !e.mayPanic(st, fr, Not(ok), "type-assert", in, StrPanic("interface conversion")) {
		return false
	}
	fr.vals[in] = &Value{T: in.Type(), L: e.unboxValue(st, T, v)}
	return true
}

func (e *Exec) next(st *State, fr *Frame, in *ssa.Next) {
	it := e.val(st, fr, in.Iter)
	tt := in.Type().(*types.Tuple)
	ok := Fresh("it_ok", SBool)
	L := []*Term{ok}
	if in.IsString {
		idx := Fresh("it_idx", SBV(64))
		r := Fresh("it_rune", SBV(32))
		s := it.One()
		st.Assume(Implies(ok, BVCmp("bvult", idx, SLen(s))))
		// a component the loop does not use has the invalid type and no leaves
		for k, t := range []*Term{idx, r} {
			if b, okb := tt.At(k + 1).Type().(*types.Basic); okb && b.Kind() == types.Invalid {
				continue
			}
			L = append(L, t)
		}
	} else {
		m := it.One()
		for k := 1; k < tt.Len(); k++ {
			if b, okb := tt.At(k).Type().(*types.Basic); okb && b.Kind() == types.Invalid {
				continue
			}
			hv := e.havocValue(st, tt.At(k).Type(), "it")
			L = append(L, hv.L...)
		}
		// link key/value to the map when representable
		mt := in.Iter.(*ssa.Range).X.Type().Underlying().(*types.Map)
		ks := leafSorts(mt.Key())
		if len(ks) == 1 && len(L) > 1 {
			kterm := L[1]
			if kterm.Sort == ks[0] {
				st.Assume(Implies(ok, Select(st.Sel(st.MapHas(ks[0]), m), kterm)))
				vs := leafSorts(mt.Elem())
				if len(L) == 2+len(vs) {
					for j, s := range vs {
						st.Assume(Implies(ok, Eq(L[2+j], Select(st.Sel(st.MapVal(ks[0], j, s), m), kterm))))
					}
				}
			}
		}
	}
	fr.vals[in] = &Value{T: in.Type(), L: L}
}
