package main

// C03 — static typing is sound (fragment: binary operators). For every binary
// operator and every ordered pair of static operand types from a finite
// universe (predeclared numeric kinds, string, bool, nil, and named types of
// kind int / string), the real checker.visitor.BinaryNode is executed with the
// two operand types as the (assumed) results of visiting the children; the
// real run-time helper the compiler selects for the operator is executed on
// arbitrary cells of exactly those dynamic types. Obligations per cell:
//   sound        accepted  ==> the helper has no path that fails for a type reason
//   result-kind  accepted  ==> the dynamic kind of every successful result is the static result kind
//   rejects      the helper fails for a type reason on every value  ==> rejected
// (division / modulo by zero is a value-dependent failure and allowed).

import (
	"fmt"
	"go/token"
	"go/types"
	"strings"

	"golang.org/x/tools/go/ssa"
)

type c03Type struct {
	name string
	T    types.Type // nil: the nil literal (no static type)
}

func c03Universe() []c03Type {
	pkg := types.NewPackage("example.com/env", "env")
	named := func(n string, u types.Type) types.Type {
		return types.NewNamed(types.NewTypeName(token.NoPos, pkg, n, nil), u, nil)
	}
	return []c03Type{
		{"int", types.Typ[types.Int]}, {"int64", types.Typ[types.Int64]}, {"uint8", types.Typ[types.Uint8]},
		{"float32", types.Typ[types.Float32]}, {"float64", types.Typ[types.Float64]},
		{"string", types.Typ[types.String]}, {"bool", types.Typ[types.Bool]}, {"nil", nil},
		{"named-int", named("ID", types.Typ[types.Int])}, {"named-string", named("Name", types.Typ[types.String])},
	}
}

func (t c03Type) code() *Term {
	if t.T == nil {
		return IntLit(0)
	}
	return typeCodeTerm(t.T)
}

// cell: an arbitrary value of dynamic type t
func (t c03Type) cell(tag string) *Term {
	if t.T == nil {
		return VNil
	}
	b := t.T.Underlying().(*types.Basic)
	v := boxSimple(b, []*Term{Fresh(tag, leafSorts(b)[0])})
	if _, ok := t.T.(*types.Named); ok {
		return VCtor("VNamed", typeCodeTerm(t.T), v)
	}
	return v
}

var c03Ops = []struct {
	op, helper string
	resKind    int // expected static result kind when fixed (1 = bool, 24 = string, 0 = by combined / not checked)
}{
	{"==", "equal", 1}, {"<", "less", 1}, {">=", "moreOrEqual", 1}, {"+", "add", 0}, {"-", "subtract", 0}, {"*", "multiply", 0},
	{"/", "divide", 0}, {"%", "modulo", 0}, {"**", "exponent", 14}, {"..", "range", 0}, {"and", "bool", 1}, {"contains", "string", 1}, {"in", "skip", 0},
}

func genC03(w *World, res *CheckResult) {
	fn := w.Func("checker.visitor.BinaryNode")
	if fn == nil {
		res.Obls = append(res.Obls, missingObl("checker.visitor.BinaryNode/exists", "function not found"))
		return
	}
	verifyInit(w, res, "checker")
	res.Functions = append(res.Functions, "checker.visitor.BinaryNode", "checker.isNumber", "checker.isInteger", "checker.isFloat", "checker.isString", "checker.isBool", "checker.isComparable", "checker.combined")
	for _, n := range []string{"toInt", "toInt64", "toFloat64", "negate", "exponent", "equal", "less", "more", "lessOrEqual", "moreOrEqual", "add", "subtract", "multiply", "divide", "modulo"} {
		w.forceInline["vm."+n] = true
	}
	w.forceInline["checker.dereference"] = true
	defer func() {
		for _, n := range []string{"toInt", "toInt64", "toFloat64", "negate", "exponent", "equal", "less", "more", "lessOrEqual", "moreOrEqual", "add", "subtract", "multiply", "divide", "modulo"} {
			delete(w.forceInline, "vm."+n)
		}
		delete(w.forceInline, "checker.dereference")
		delete(w.forceInline, "conf.dereference")
	}()
	lay := astLayout{w}
	U := c03Universe()
	iface := types.NewInterfaceType(nil, nil)
	divZero := StrPanic("runtime error: integer divide by zero")
	vst := fn.Params[0].Type().Underlying().(*types.Pointer).Elem().Underlying().(*types.Struct)
	errOff := -1
	for k := 0; k < vst.NumFields(); k++ {
		if vst.Field(k).Name() == "err" {
			errOff = fieldLeafOffset(vst, k)
		}
	}
	// dynamic side, cached per (helper, l, r): typeFail = some path fails for a type reason; allFail = every path does;
	// okKinds = for each successful path, a term for the result value
	type dyn struct {
		someTypeFail, allTypeFail bool
		results                   []*Term
		states                    []*State
		failStates                []*State // paths that fail for a type reason (their feasibility is the solver's to decide)
	}
	dcache := map[string]*dyn{}
	covers := map[string]*Obligation{}
	dynOf := func(helper string, l, r c03Type) *dyn {
		key := helper + "|" + l.name + "|" + r.name
		if d, ok := dcache[key]; ok {
			return d
		}
		d := &dyn{allTypeFail: true}
		a, b := l.cell("xa"), r.cell("xb")
		switch helper {
		case "skip":
			// membership goes through reflect (vm.in): only the typing rule itself is exercised (it must not fail)
			d.allTypeFail = false
		case "bool", "string":
			want := "VBool"
			if helper == "string" {
				want = "VStr"
			}
			okc := ctorOf(a) == want && ctorOf(b) == want
			d.someTypeFail, d.allTypeFail = !okc, !okc
			if !okc {
				d.failStates = append(d.failStates, NewState())
			}
			if okc {
				d.results = append(d.results, VCtor("VBool", Fresh("res", SBool)))
				d.states = append(d.states, NewState())
			}
		case "range":
			// OpRange converts both operands with toInt
			f := w.Func("vm.toInt")
			e := NewExec(w)
			e.SafeMode = func(*ssa.Function) string { return "panics" }
			okAll := true
			for _, x := range []*Term{a, b} {
				n := 0
				for _, o := range e.Run(f, []*Value{{T: iface, L: []*Term{x}}}, NewState(), nil) {
					if o.Panic != nil {
						d.someTypeFail = true
						d.failStates = append(d.failStates, o.St)
					} else {
						n++
					}
				}
				if n == 0 {
					okAll = false
				}
			}
			d.allTypeFail = !okAll
		default:
			f := w.Func("vm." + helper)
			e := NewExec(w)
			e.SafeMode = func(*ssa.Function) string { return "panics" }
			for _, o := range e.Run(f, []*Value{{T: iface, L: []*Term{a}}, {T: iface, L: []*Term{b}}}, NewState(), nil) {
				if o.Panic != nil {
					if o.Panic == divZero {
						d.allTypeFail = false
						continue
					}
					d.someTypeFail = true
					d.failStates = append(d.failStates, o.St)
					continue
				}
				d.allTypeFail = false
				d.results = append(d.results, e.boxValue(o.St, o.Res[0]))
				d.states = append(d.states, o.St)
			}
		}
		dcache[key] = d
		return d
	}
	for _, op := range c03Ops {
		if op.helper != "bool" && op.helper != "string" && op.helper != "range" && op.helper != "skip" {
			res.Functions = append(res.Functions, "vm."+op.helper)
		}
		for _, l := range U {
			for _, r := range U {
				cell := fmt.Sprintf("checker.BinaryNode[%s,%s,%s]", op.op, l.name, r.name)
				e := NewExec(w)
				e.SafeMode = func(f *ssa.Function) string { return "panics" }
				st := NewState()
				e.paramMode = true
				vv := e.havocValue(st, fn.Params[0].Type(), "v")
				e.paramMode = false
				st.Assume(Not(Eq(vv.One(), NilLoc)))
				bn := FreshPre(st, "bin")
				AssumeDistinctObjs(st, bn, vv.One())
				e.initFacts(st, fn, e.entryEnv(st, fn, []*Value{vv, {T: fn.Params[1].Type(), L: []*Term{bn}}}, nil))
				left, right := Fresh("leftnode", SVal), Fresh("rightnode", SVal)
				st.Assume(Not(Eq(left, right)))
				st.Assume(Not(Eq(left, VNil)))
				st.Assume(Not(Eq(right, VNil)))
				st.Store(LocField(bn, lay.off("BinaryNode", "Operator")), StrLit(op.op))
				st.Store(LocField(bn, lay.off("BinaryNode", "Left")), left)
				st.Store(LocField(bn, lay.off("BinaryNode", "Right")), right)
				st.Store(LocField(vv.One(), errOff), NilLoc)
				e.CallHook = func(e *Exec, st *State, fr *Frame, cc *ssa.CallCommon, callee *ssa.Function, args []*Value, k func(*State, []*Value)) bool {
					switch shortName(callee) {
					case "checker.visitor.visit":
						// the children's static types (hypothesis: what visiting them returned)
						c := st.Simp(Eq(args[1].One(), left))
						t := r.code()
						if c == True {
							t = l.code()
						}
						k(st, []*Value{{T: callee.Signature.Results().At(0).Type(), L: []*Term{t}}})
						return true
					case "conf.FindSuitableOperatorOverload":
						// no operator overloads configured (C17 covers them)
						rs := callee.Signature.Results()
						var out []*Value
						for i := 0; i < rs.Len(); i++ {
							out = append(out, e.havocValue(st, rs.At(i).Type(), "ovl"))
						}
						out[rs.Len()-1] = &Value{T: tBool, L: []*Term{False}}
						k(st, out)
						return true
					}
					return false
				}
				outs := e.Run(fn, []*Value{vv, {T: fn.Params[1].Type(), L: []*Term{bn}}}, st, nil)
				d := dynOf(op.helper, l, r)
				// vacuity guards per operator: the rule accepts some pair and rejects some pair of the universe
				for _, o := range outs {
					if o.Panic != nil || op.helper == "skip" {
						continue // (no pair of this universe is a collection: `in` has no accepting cell to cover)
					}
					rej := Not(Eq(o.St.Load(LocField(vv.One(), errOff), SLoc), NilLoc))
					for _, g := range []struct {
						n string
						c *Term
					}{{"accepts", Not(rej)}, {"rejects", rej}} {
						cn := fmt.Sprintf("checker.BinaryNode[%s]/cover:%s", op.op, g.n)
						co := covers[cn]
						if co == nil {
							co = &Obligation{Name: cn, Kind: "cover", Expect: "sat", Func: fn.String(), Meta: map[string]string{}}
							covers[cn] = co
							res.Obls = append(res.Obls, co)
						}
						if o.St.Simp(g.c) != False && len(co.VCs) < 3 {
							co.VCs = append(co.VCs, &VC{Asserts: append([]*Term{g.c}, o.St.pc...), Seq: nextVCSeq()})
						}
					}
				}
				for _, o := range outs {
					if o.Panic != nil {
						e.AddVC(cell+"/sound", "post", fn.String(), o.St, True, "the typing rule itself must not fail")
						continue
					}
					rejected := Not(Eq(o.St.Load(LocField(vv.One(), errOff), SLoc), NilLoc))
					tf, af := False, False
					if d.someTypeFail {
						tf = True
					}
					if d.allTypeFail {
						af = True
					}
					_ = tf
					if len(d.failStates) == 0 {
						e.AddVC(cell+"/sound", "post", fn.String(), o.St, False, "an accepted operation on operands of exactly these dynamic types does not fail for a type reason (the helper has no such path)")
					}
					for _, fs := range d.failStates {
						s2 := o.St.Clone()
						for _, p := range fs.pc {
							s2.Assume(p)
						}
						e.AddVC(cell+"/sound", "post", fn.String(), s2, Not(rejected), "an accepted operation on operands of exactly these dynamic types does not fail for a type reason")
					}
					if ref, ok := c03Reference(op.op, l, r); ok {
						want := False
						if ref {
							want = True
						}
						e.AddVC(cell+"/rule", "post", fn.String(), o.St, Not(Eq(Not(rejected), want)), "the operator is accepted exactly when the documented typing rule admits these operand types")
					}
					e.AddVC(cell+"/rejects", "post", fn.String(), o.St, And(af, Not(rejected)), "an operation that fails for a type reason on every value of these types is rejected")
					if op.resKind == 0 && op.helper != "range" && op.helper != "skip" && len(o.Res) == 1 && l.T != nil && r.T != nil {
						// arithmetic: the static result kind is the dynamic kind of the helper's result
						_, ln := l.T.(*types.Named)
						_, rn := r.T.(*types.Named)
						if !ln && !rn {
							rk := rtKind(o.Res[0].One())
							for i, rv := range d.results {
								s2 := o.St.Clone()
								for _, p := range d.states[i].pc {
									s2.Assume(p)
								}
								e.AddVC(cell+"/result-kind", "post", fn.String(), s2, And(Not(rejected), Not(Eq(rk, kindOfVal(rv)))), "the static result kind is the dynamic kind of every successful result")
							}
						}
					}
					if op.resKind != 0 && len(o.Res) == 1 {
						rk := rtKind(o.Res[0].One())
						for i, rv := range d.results {
							s2 := o.St.Clone()
							for _, p := range d.states[i].pc {
								s2.Assume(p)
							}
							want := map[int]string{1: "VBool", 14: "VF64", 24: "VStr"}[op.resKind]
							e.AddVC(cell+"/result-kind", "post", fn.String(), s2, And(Not(rejected), Not(And(Eq(rk, BV64(int64(op.resKind))), Is(want, rv)))), "the static result kind is the dynamic kind of every successful result")
						}
					}
				}
				for _, o := range e.obls {
					if strings.HasPrefix(o.Name, cell+"/") {
						if o.Meta == nil {
							o.Meta = map[string]string{}
						}
						o.Meta["op"], o.Meta["l"], o.Meta["r"] = op.op, l.name, r.name
						res.Obls = append(res.Obls, o)
					}
				}
				res.Assumptions = append(res.Assumptions, e.Notes()...)
			}
		}
	}
	delete(w.forceInline, "checker.dereference") // only the binary cells execute dereference; the functions below use its contract
	genCheckerPointer(w, res)
	genCheckerConditional(w, res)
	genCheckerUnary(w, res)
	genCheckerVisits(w, res)
	// static result type of arithmetic: checker.combined against the dynamic result kind of the helpers (cells shared with C14)
	{
		tmp := &CheckResult{}
		e14 := NewExec(w)
		e14.SafeMode = func(*ssa.Function) string { return "panics" }
		for _, n := range []string{"toInt", "toInt64", "toFloat64", "negate", "exponent", "equal", "less", "more", "lessOrEqual", "moreOrEqual", "add", "subtract", "multiply", "divide", "modulo"} {
			w.forceInline["vm."+n] = true
		}
		genC14Checker(w, e14, tmp)
		res.Obls = append(res.Obls, selectObls(e14.obls, `^checker\.combined\[`)...)
		res.Functions = append(res.Functions, tmp.Functions...)
	}
	// the optimizer keeps the static type the checker gave a literal (a folded literal of another type makes an
	// accepted call fail in reflect.Call): the fold cells of C02
	{
		tmp := &CheckResult{Extra: map[string]interface{}{}}
		genC02(w, tmp)
		res.Obls = append(res.Obls, selectObls(tmp.Obls, `^optimizer\.fold\[.*\]/post:transparent$`)...)
		res.Functions = append(res.Functions, "optimizer.fold.Exit")
	}
	res.Assumptions = append(res.Assumptions,
		"typing assumption for the operands (the induction hypothesis of soundness): a child whose static type is T evaluates to a value of dynamic type exactly T (nil for the nil literal); interface-typed operands are outside the statement ('all its operands are statically typed')",
		"fragment: binary operators == < >= + - * / % ** .. and contains over the universe {int, int64, uint8, float32, float64, string, bool, nil, named int, named string}; the remaining numeric kinds behave like these in the checker (classification by reflect.Kind) and are covered helper-side by C14; unary, index, slice, call, builtin and member typing rules, result directives and the 'rejects wherever the violation sits' direction are not decided here",
		"operator -> helper mapping (== equal, < less, + add, ..., and: bool assertion of the jump, contains: string assertion, ..: toInt on both operands) is the one C01's template obligations establish for compiler.BinaryNode")
}

func init() {
	registerProp(&propDef{id: "C03", level: "proof", gen: genC03, replay: c03Replay,
		expl: "soundness cells of the binary typing rules: the real checker.BinaryNode on each (operator, static left type, static right type) against the real run-time helper on arbitrary cells of those dynamic types"})
}

func c03Replay(o *Obligation, dir string) (string, bool) {
	op, l, r := o.Meta["op"], o.Meta["l"], o.Meta["r"]
	if op == "" {
		return "", false
	}
	field := map[string]string{"int": "I", "int64": "I64", "uint8": "U8", "float32": "F32", "float64": "F64", "string": "S", "bool": "B", "named-int": "NI", "named-string": "NS"}
	operand := func(t, suffix string) string {
		if t == "nil" {
			return "nil"
		}
		return field[t] + suffix
	}
	code := operand(l, "") + " " + op + " " + operand(r, "2")
	src := `package expr_test

import (
	"strings"
	"testing"

	"github.com/antonmedv/expr"
)

type verifID int
type verifName string
type verifTypes struct {
	I, I2     int
	I64, I642 int64
	U8, U82   uint8
	F32, F322 float32
	F64, F642 float64
	S, S2     string
	B, B2     bool
	NI, NI2   verifID
	NS, NS2   verifName
}

// replay of obligation ` + o.Name + `
func TestVerifReplay(t *testing.T) {
	env := verifTypes{I: 7, I2: 2, I64: 7, I642: 2, U8: 7, U82: 2, F32: 7, F322: 2, F64: 7, F642: 2, S: "ab", S2: "a", B: true, B2: false, NI: 7, NI2: 2, NS: "ab", NS2: "a"}
	code := ` + "`" + code + "`" + `
	p, err := expr.Compile(code, expr.Env(verifTypes{}))
	if err != nil {
		t.Logf("rejected at compile time: %v", err)
		return
	}
	_, err = expr.Run(p, env)
	if err != nil && (strings.Contains(err.Error(), "invalid operation") || strings.Contains(err.Error(), "interface conversion")) {
		t.Fatalf("VIOLATED: %s is accepted by the checker for statically typed operands and fails at run time for a type reason: %v", code, err)
	}
	t.Logf("accepted and ran: err=%v", err)
}
`
	return runReplay(o, dir, "", src)
}


// c03Reference: the documented typing rule of the operator on two predeclared
// operand types (docs/Language-Definition.md: arithmetic on numbers, % and ..
// on integers, ordering on numbers or on strings, + also on strings, logic on
// booleans, string operators on strings, equality on numbers, on operands of
// the same kind, or against nil). ok=false: no reference for these types.
func c03Reference(op string, l, r c03Type) (accept, ok bool) {
	cls := func(t c03Type) string {
		if t.T == nil {
			return "nil"
		}
		if _, named := t.T.(*types.Named); named {
			return ""
		}
		b := t.T.(*types.Basic)
		switch {
		case b.Info()&types.IsInteger != 0:
			return "int"
		case b.Info()&types.IsFloat != 0:
			return "float"
		case b.Info()&types.IsString != 0:
			return "string"
		case b.Info()&types.IsBoolean != 0:
			return "bool"
		}
		return ""
	}
	a, b := cls(l), cls(r)
	if a == "" || b == "" {
		return false, false
	}
	num := func(c string) bool { return c == "int" || c == "float" }
	switch op {
	case "+":
		return num(a) && num(b) || a == "string" && b == "string", true
	case "-", "*", "/", "**":
		return num(a) && num(b), true
	case "%", "..":
		return a == "int" && b == "int", true
	case "<", ">=":
		return num(a) && num(b) || a == "string" && b == "string", true
	case "and":
		return a == "bool" && b == "bool", true
	case "contains":
		return a == "string" && b == "string", true
	case "==":
		return num(a) && num(b) || a == b || a == "nil" || b == "nil", true
	}
	return false, false
}


// genCheckerPointer: `#` is typed by the innermost collection (contract of checker.visitor.PointerNode).
func genCheckerPointer(w *World, res *CheckResult) {
	for _, n := range []string{"checker.visitor.PointerNode", "checker.indexType", "checker.visitor.checkFunc", "checker.visitor.BuiltinNode", "checker.fieldType", "checker.Check", "conf.FieldsFromStruct", "conf.CreateTypesTable", "checker.dereference", "checker.visitor.FunctionNode"} {
		f2, ct := w.Func(n), w.Contracts[n]
		if f2 == nil || ct == nil {
			res.Obls = append(res.Obls, missingObl(n+"/exists", "function or contract missing"))
			continue
		}
		e2 := NewExec(w)
		w.forceInline[n] = true
		if n == "checker.fieldType" {
			// recursive: the inner call (embedded structs) goes through the contract
			delete(w.forceInline, n)
			w.forceInline["checker.dereference"] = true
		}
		if n == "conf.FieldsFromStruct" || n == "conf.CreateTypesTable" {
			delete(w.forceInline, n)
		}
		e2.VerifyFunc(f2, ct, nil)
		delete(w.forceInline, n)
		delete(w.forceInline, "checker.dereference")
		for _, o := range e2.obls {
			if strings.Contains(o.Name, "/safe:") {
				continue
			}
			if (n == "checker.visitor.checkFunc" || n == "checker.visitor.BuiltinNode" || n == "checker.Check" || n == "checker.visitor.FunctionNode") && strings.Contains(o.Name, "/call-pre:") {
				continue // non-nil argument nodes across calls of visit (assigns *): a tree-shape fact, not decided here
			}
			res.Obls = append(res.Obls, o)
		}
		res.Functions = append(res.Functions, n)
	}
}

// genCheckerConditional: cells of the conditional's typing rule. A conditional
// returns one branch unconverted, so the static type may only be a type both
// branch values have: for each branch of static type T the result type is T
// itself or an interface type (nil for two nil branches).
func genCheckerConditional(w *World, res *CheckResult) {
	fn := w.Func("checker.visitor.ConditionalNode")
	if fn == nil {
		res.Obls = append(res.Obls, missingObl("checker.visitor.ConditionalNode/exists", "function not found"))
		return
	}
	res.Functions = append(res.Functions, "checker.visitor.ConditionalNode")
	lay := astLayout{w}
	U := c03Universe()
	byCode := map[*Term]c03Type{}
	for _, t := range U {
		byCode[t.code()] = t
	}
	vst := fn.Params[0].Type().Underlying().(*types.Pointer).Elem().Underlying().(*types.Struct)
	errOff := -1
	for k := 0; k < vst.NumFields(); k++ {
		if vst.Field(k).Name() == "err" {
			errOff = fieldLeafOffset(vst, k)
		}
	}
	boolT := c03Type{"bool", types.Typ[types.Bool]}
	for _, t1 := range U {
		for _, t2 := range U {
			cell := fmt.Sprintf("checker.ConditionalNode[%s,%s]", t1.name, t2.name)
			e := NewExec(w)
			e.SafeMode = func(f *ssa.Function) string { return "panics" }
			st := NewState()
			e.paramMode = true
			vv := e.havocValue(st, fn.Params[0].Type(), "v")
			e.paramMode = false
			st.Assume(Not(Eq(vv.One(), NilLoc)))
			cn := FreshPre(st, "cond")
			AssumeDistinctObjs(st, cn, vv.One())
			e.initFacts(st, fn, e.entryEnv(st, fn, []*Value{vv, {T: fn.Params[1].Type(), L: []*Term{cn}}}, nil))
			c, a, b := Fresh("condnode", SVal), Fresh("exp1node", SVal), Fresh("exp2node", SVal)
			for _, x := range []*Term{c, a, b} {
				st.Assume(Not(Eq(x, VNil)))
			}
			st.Assume(Not(Eq(c, a)))
			st.Assume(Not(Eq(c, b)))
			st.Assume(Not(Eq(a, b)))
			st.Store(LocField(cn, lay.off("ConditionalNode", "Cond")), c)
			st.Store(LocField(cn, lay.off("ConditionalNode", "Exp1")), a)
			st.Store(LocField(cn, lay.off("ConditionalNode", "Exp2")), b)
			st.Store(LocField(vv.One(), errOff), NilLoc)
			e.CallHook = func(e *Exec, st *State, fr *Frame, cc *ssa.CallCommon, callee *ssa.Function, args []*Value, k func(*State, []*Value)) bool {
				if shortName(callee) == "checker.visitor.visit" {
					t := boolT.code()
					if st.Simp(Eq(args[1].One(), a)) == True {
						t = t1.code()
					} else if st.Simp(Eq(args[1].One(), b)) == True {
						t = t2.code()
					}
					k(st, []*Value{{T: callee.Signature.Results().At(0).Type(), L: []*Term{t}}})
					return true
				}
				return false
			}
			e.InvokeHook = func(e *Exec, st *State, fr *Frame, cc *ssa.CallCommon, recv *Value, args []*Value, k func(*State, []*Value)) bool {
				if cc.Method.Name() == "AssignableTo" && len(args) == 1 {
					x, okx := byCode[st.Simp(recv.One())]
					y, oky := byCode[st.Simp(args[0].One())]
					if okx && oky && x.T != nil && y.T != nil {
						r := False
						if types.AssignableTo(x.T, y.T) {
							r = True
						}
						k(st, []*Value{{T: tBool, L: []*Term{r}}})
						return true
					}
				}
				return false
			}
			for _, o := range e.Run(fn, []*Value{vv, {T: fn.Params[1].Type(), L: []*Term{cn}}}, st, nil) {
				if o.Panic != nil {
					e.AddVC(cell+"/covers-branches", "post", fn.String(), o.St, True, "the typing rule itself must not fail")
					continue
				}
				rejected := Not(Eq(o.St.Load(LocField(vv.One(), errOff), SLoc), NilLoc))
				r := o.Res[0].One()
				covers := func(t c03Type) *Term {
					if t.T == nil {
						return True
					}
					return Or(Eq(r, t.code()), Eq(rtKind(r), BV64(20)))
				}
				e.AddVC(cell+"/covers-branches", "post", fn.String(), o.St, And(Not(rejected), Not(And(covers(t1), covers(t2)))),
					"the conditional's static type is a type both branch values have: the branch's own type, or an interface type")
			}
			for _, o := range e.obls {
				if strings.HasPrefix(o.Name, cell+"/") {
					res.Obls = append(res.Obls, o)
				}
			}
		}
	}
}


// kindOfVal: the reflect.Kind of a dynamic value of a predeclared basic type.
func kindOfVal(v *Term) *Term {
	out := BV64(0)
	for _, c := range []struct {
		ctor string
		kind int64
	}{{"VBool", 1}, {"VInt", 2}, {"VInt8", 3}, {"VInt16", 4}, {"VInt32", 5}, {"VInt64", 6}, {"VUint", 7}, {"VUint8", 8}, {"VUint16", 9}, {"VUint32", 10}, {"VUint64", 11}, {"VF32", 13}, {"VF64", 14}, {"VStr", 24}} {
		out = Ite(Is(c.ctor, v), BV64(c.kind), out)
	}
	return out
}

// genCheckerUnary: cells of the unary typing rule: for each operand type the
// static result kind of -x / +x / !x is the dynamic kind of what the VM
// computes (vm.negate keeps the operand's kind; + pushes the operand; ! a bool).
func genCheckerUnary(w *World, res *CheckResult) {
	fn := w.Func("checker.visitor.UnaryNode")
	neg := w.Func("vm.negate")
	if fn == nil || neg == nil {
		res.Obls = append(res.Obls, missingObl("checker.visitor.UnaryNode/exists", "function not found"))
		return
	}
	res.Functions = append(res.Functions, "checker.visitor.UnaryNode")
	lay := astLayout{w}
	w.forceInline["checker.dereference"] = true
	defer delete(w.forceInline, "checker.dereference")
	vst := fn.Params[0].Type().Underlying().(*types.Pointer).Elem().Underlying().(*types.Struct)
	errOff := -1
	for k := 0; k < vst.NumFields(); k++ {
		if vst.Field(k).Name() == "err" {
			errOff = fieldLeafOffset(vst, k)
		}
	}
	iface := types.NewInterfaceType(nil, nil)
	for _, op := range []string{"-", "+", "!"} {
		for _, t := range c03Universe() {
			if t.T == nil {
				continue
			}
			if _, named := t.T.(*types.Named); named {
				continue
			}
			cell := fmt.Sprintf("checker.UnaryNode[%s,%s]", op, t.name)
			// dynamic side
			var dynKinds []*Term
			var dynStates []*State
			x := t.cell("x")
			switch op {
			case "-":
				e := NewExec(w)
				e.SafeMode = func(*ssa.Function) string { return "panics" }
				for _, n := range []string{"toInt", "toInt64", "toFloat64", "negate"} {
					w.forceInline["vm."+n] = true
				}
				for _, o := range e.Run(neg, []*Value{{T: iface, L: []*Term{x}}}, NewState(), nil) {
					if o.Panic == nil {
						dynKinds = append(dynKinds, kindOfVal(e.boxValue(o.St, o.Res[0])))
						dynStates = append(dynStates, o.St)
					}
				}
				for _, n := range []string{"toInt", "toInt64", "toFloat64", "negate"} {
					delete(w.forceInline, "vm."+n)
				}
			case "+":
				dynKinds, dynStates = []*Term{kindOfVal(x)}, []*State{NewState()}
			case "!":
				if ctorOf(x) == "VBool" {
					dynKinds, dynStates = []*Term{BV64(1)}, []*State{NewState()}
				}
			}
			e := NewExec(w)
			e.SafeMode = func(f *ssa.Function) string { return "panics" }
			st := NewState()
			e.paramMode = true
			vv := e.havocValue(st, fn.Params[0].Type(), "v")
			e.paramMode = false
			st.Assume(Not(Eq(vv.One(), NilLoc)))
			un := FreshPre(st, "unary")
			AssumeDistinctObjs(st, un, vv.One())
			e.initFacts(st, fn, e.entryEnv(st, fn, []*Value{vv, {T: fn.Params[1].Type(), L: []*Term{un}}}, nil))
			child := Fresh("operandnode", SVal)
			st.Assume(Not(Eq(child, VNil)))
			st.Store(LocField(un, lay.off("UnaryNode", "Operator")), StrLit(op))
			st.Store(LocField(un, lay.off("UnaryNode", "Node")), child)
			st.Store(LocField(vv.One(), errOff), NilLoc)
			e.CallHook = func(e *Exec, st *State, fr *Frame, cc *ssa.CallCommon, callee *ssa.Function, args []*Value, k func(*State, []*Value)) bool {
				if shortName(callee) == "checker.visitor.visit" {
					k(st, []*Value{{T: callee.Signature.Results().At(0).Type(), L: []*Term{t.code()}}})
					return true
				}
				return false
			}
			for _, o := range e.Run(fn, []*Value{vv, {T: fn.Params[1].Type(), L: []*Term{un}}}, st, nil) {
				if o.Panic != nil {
					e.AddVC(cell+"/result-kind", "post", fn.String(), o.St, True, "the typing rule itself must not fail")
					continue
				}
				rejected := Not(Eq(o.St.Load(LocField(vv.One(), errOff), SLoc), NilLoc))
				if len(dynKinds) == 0 {
					// the operation fails on every value of this type: it must be rejected
					e.AddVC(cell+"/result-kind", "post", fn.String(), o.St, Not(rejected), "an operand type the operation cannot take is rejected")
					continue
				}
				rk := rtKind(o.Res[0].One())
				for i, dk := range dynKinds {
					s2 := o.St.Clone()
					for _, p := range dynStates[i].pc {
						s2.Assume(p)
					}
					e.AddVC(cell+"/result-kind", "post", fn.String(), s2, And(Not(rejected), Not(Eq(rk, dk))), "when accepted, the static result kind is the dynamic kind of the result")
				}
			}
			for _, o := range e.obls {
				if strings.HasPrefix(o.Name, cell+"/") {
					res.Obls = append(res.Obls, o)
				}
			}
		}
	}
}
