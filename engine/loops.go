package main

// Loop rule: invariants, frames (modifies), decreases, entry assertions,
// per-path labels and per-label case clauses.

import (
	"fmt"
	"os"
	"go/types"
	"sort"
	"strings"

	"golang.org/x/tools/go/ssa"
)

func (e *Exec) loopSpecFor(st *State, fr *Frame, b *ssa.BasicBlock) (*LoopSpec, string) {
	ordName := ""
	ord := loopOrdinal(fr.fn, b)
	var spec *LoopSpec
	if fr.ct != nil {
		spec = fr.ct.Loops[fmt.Sprint(ord)]
		if spec == nil && st != nil {
			// keyed by the path label of an enclosing labelled loop
			for _, h := range loopHeaders(fr.fn) {
				if h == b || !loopBody(h)[b] {
					continue
				}
				hs := fr.ct.Loops[fmt.Sprint(loopOrdinal(fr.fn, h))]
				if hs == nil || hs.LabelBy == "" {
					continue
				}
				env := &SpecEnv{e: e, st: st, old: fr.entryState, vars: map[string]*Value{}, fn: fr.fn, bound: map[string]*Value{}}
				env.lookup = e.nameLookup(st, fr, b)
				lb := strings.Trim(e.pathLabel(st, fr, hs, env), "[]")
				if s2 := fr.ct.Loops[lb]; s2 != nil {
					spec = s2
					ordName = lb
				}
			}
		}
	}
	if spec == nil {
		spec = &LoopSpec{}
		e.Note("loop %d of %s has no invariant: cut with invariant true", ord, shortName(fr.fn))
	}
	if ordName == "" {
		ordName = fmt.Sprint(ord)
	}
	return spec, ordName
}

// frameMembers evaluates the modifies clause into object ids and exact locations.
func (e *Exec) frameMembers(spec *LoopSpec, env *SpecEnv) (objs, flocs []*Term) {
	for _, m := range spec.Modifies {
		switch {
		case m == "nothing" || m == "fresh":
		case strings.HasPrefix(m, "obj(") && strings.HasSuffix(m, ")"):
			v := e.evalSpec(m[4:len(m)-1], env)
			objs = append(objs, LObj(v.L[0]))
		case strings.HasPrefix(m, "field(") && strings.HasSuffix(m, ")"):
			ex := m[6 : len(m)-1]
			i := strings.LastIndex(ex, ".")
			if i < 0 {
				panic("modifies field(p.f): " + m)
			}
			p := e.evalSpec(ex[:i], env)
			st, ok := p.T.Underlying().(*types.Pointer).Elem().Underlying().(*types.Struct)
			if !ok {
				panic("modifies field of non-struct: " + m)
			}
			found := false
			for k := 0; k < st.NumFields(); k++ {
				if st.Field(k).Name() == ex[i+1:] {
					off := fieldLeafOffset(st, k)
					for j := 0; j < numLeaves(st.Field(k).Type()); j++ {
						flocs = append(flocs, LocField(p.One(), off+j))
					}
					found = true
				}
			}
			if !found {
				panic("modifies: no field " + m)
			}
		default:
			panic("modifies: unsupported item " + m)
		}
	}
	return
}

func frameFormula(old, nw *Term, objs, flocs []*Term, water *Term) *Term {
	ks, _ := arrSorts(old.Sort)
	l := BoundVar(fmt.Sprintf("fl%d", freshSeqNext()), ks)
	var same []*Term
	for _, o := range objs {
		same = append(same, Not(Eq(LObj(l), o)))
	}
	for _, f := range flocs {
		same = append(same, Not(Eq(l, f)))
	}
	same = append(same, IntCmp("<=", LObj(l), water))
	return Forall([]*Term{l}, Implies(And(same...), Eq(Select(nw, l), Select(old, l))))
}

func (e *Exec) pathLabel(st *State, fr *Frame, spec *LoopSpec, env *SpecEnv) string {
	if spec.LabelBy == "" {
		return ""
	}
	var t *Term
	if lt := labelTermOf(fr, spec); lt != nil {
		// the label expression was evaluated at the loop head; the dispatch
		// on it later in the iteration made it a literal on this path
		t = st.Simp(lt)
	} else {
		v := e.evalSpec(spec.LabelBy, env)
		t = st.Simp(v.One())
	}
	if t.BV == nil {
		if traceOn && labelDbg < 3 {
			labelDbg++
			ts := t.String()
			if len(ts) > 1500 {
				ts = ts[:1500]
			}
			if len(ts) > 600 {
				ts = ts[:600]
			}
			fmt.Fprintf(os.Stderr, "trace: label not literal: %s\n", ts)
		}
		return "[?]"
	}
	// find a package constant with that value whose name starts with Op
	var names []string
	for f := fr.fn; f != nil; f = f.Parent() {
		if p := f.Package(); p != nil {
			for n, m := range p.Members {
				if c, ok := m.(*ssa.NamedConst); ok && strings.HasPrefix(n, "Op") {
					cv := e.constVal(c.Value)
					if len(cv.L) == 1 && cv.L[0].BV != nil && cv.L[0].BV.Cmp(t.BV) == 0 && cv.L[0].Sort == t.Sort {
						names = append(names, n)
					}
				}
			}
			break
		}
	}
	sort.Strings(names)
	if len(names) > 0 {
		return "[" + names[0] + "]"
	}
	return fmt.Sprintf("[%s]", t.BV.String())
}

func (e *Exec) loopCut(st *State, fr *Frame, b, pred *ssa.BasicBlock) bool {
	spec, ord := e.loopSpecFor(st, fr, b)
	fname := shortName(fr.fn)
	pi := -1
	for i, p := range b.Preds {
		if p == pred {
			pi = i
		}
	}
	incoming := map[ssa.Value]*Value{}
	for _, in := range b.Instrs {
		phi, ok := in.(*ssa.Phi)
		if !ok {
			break
		}
		incoming[phi] = e.val(st, fr, phi.Edges[pi])
	}
	back := pred != nil && isBackEdge(pred, b)
	snap := fr.loopSnap[b]
	mkEnv := func(s *State, f *Frame) *SpecEnv {
		env := &SpecEnv{e: e, st: s, old: f.entryState, vars: map[string]*Value{}, fn: f.fn, bound: map[string]*Value{}}
		env.lookup = e.nameLookup(s, f, b)
		for k, v := range f.specVars {
			env.vars[k] = v
		}
		return env
	}
	if back {
		if snap == nil {
			panic("back edge without loop entry in " + fname)
		}
		for k, v := range incoming {
			fr.vals[k] = v
		}
		env := mkEnv(st, fr)
		env.pre = snap.pre
		env.preLookup = snap.preLookup
		env.water0 = snap.water
		env.head, env.headLookup = snap.head, snap.headLookup
		label := e.pathLabel(st, fr, spec, env)
		if traceOn && label == "[?]" {
			var trail []int
			for bb := pred; bb != nil && len(trail) < 12; {
				trail = append(trail, bb.Index)
				if len(bb.Preds) == 0 {
					break
				}
				bb = bb.Preds[0]
			}
			_ = trail
			tr := st.trail
			if len(tr) > 14 {
				tr = tr[len(tr)-14:]
			}
			fmt.Fprintf(os.Stderr, "trace: back edge with unknown label, path tail %v\n", tr)
		}
		base := fmt.Sprintf("%s/loop:%s%s", fname, ord, label)
		if label != "" && label != "[?]" {
			// vacuity guard: this case really reaches the end of an iteration
			// (some path with this label is feasible; quantified facts dropped)
			o := e.oblIdx[base+"/cover"]
			if o == nil {
				o = &Obligation{Name: base + "/cover", Kind: "cover", Expect: "sat", Func: fr.fn.String(), Meta: map[string]string{}}
				e.oblIdx[base+"/cover"] = o
				e.obls = append(e.obls, o)
			}
			if len(o.VCs) < 4 {
				as := []*Term{True}
				for _, p := range st.pc {
					if p.Op != "forall" && p.Op != "exists" {
						as = append(as, p)
					}
				}
				o.VCs = append(o.VCs, &VC{Asserts: as, Seq: nextVCSeq()})
			}
		}
		if label != "" && fr.ct != nil {
			for _, c := range fr.ct.Cases[strings.Trim(label, "[]")] {
				kw, _, ex := splitCaseClause(c.Expr)
				if kw == "assume-compiled" {
					st.Assume(e.evalBool(ex, env))
					e.Note("assumed for compiled programs (to be established by the compiler contracts): case %s: %s", label, ex)
				}
				if kw == "no-explicit-panic" {
					// a completed iteration raised nothing: the obligation is only about failing paths
					e.AddVC(base+"/no-explicit-panic", "post", fr.fn.String(), st, False, "the instruction fails only where its helper (or an operand assertion) fails")
				}
			}
		}
		for _, be := range spec.BodyEnsures {
			e.Assert(base+"/body["+be.Label+"]", "post", fr.fn.String(), st, e.evalBool(be.Expr, env), be.Expr)
		}
		for _, inv := range spec.Invariants {
			e.Assert(base+"/inv-pres["+inv.Label+"]", "inv-pres", fr.fn.String(), st, e.evalBool(inv.Expr, env), inv.Expr)
		}
		if spec.Decreases != "" {
			d := coerceInt(e.evalSpec(spec.Decreases, env), tInt).One()
			e.Assert(base+"/dec", "dec", fr.fn.String(), st, And(BVCmp("bvslt", d, snap.dec), BVCmp("bvsge", snap.dec, BV64(0))), spec.Decreases)
		}
		if snap.framed {
			var keys []string
			for k := range st.mem {
				keys = append(keys, k)
			}
			sort.Strings(keys)
			var fs []*Term
			for _, k := range keys {
				h, ok := e.headMemOf(snap, k)
				if !ok || h == st.mem[k] {
					continue
				}
				fs = append(fs, frameFormula(h, st.mem[k], snap.objs, snap.flocs, snap.water))
			}
			e.Assert(base+"/frame", "frame", fr.fn.String(), st, And(fs...), "writes stay inside the modifies clause: "+strings.Join(spec.Modifies, " "))
		}
		// case clauses for this label
		if label != "" && fr.ct != nil {
			name := strings.Trim(label, "[]")
			for _, c := range fr.ct.Cases[name] {
				kw, lb, ex := splitCaseClause(c.Expr)
				switch kw {
				case "ensures":
					e.Assert(base+"/post["+lb+"]", "post", fr.fn.String(), st, e.evalBool(ex, env), ex)
				case "stack":
					var p, q int
					fmt.Sscanf(ex, "-%d +%d", &p, &q)
					g := fmt.Sprintf("len(vm.stack) == head(len(vm.stack)) - %d + %d", p, q)
					e.Assert(base+"/post[stack]", "post", fr.fn.String(), st, e.evalBool(g, env), g)
					gb := fmt.Sprintf("forall(k, 0, head(len(vm.stack)) - %d, vm.stack[k] == head(vm.stack[k]))", p)
					e.Assert(base+"/post[below]", "post", fr.fn.String(), st, e.evalBool(gb, env), gb)
				case "stack-dyn":
					g := fmt.Sprintf("len(vm.stack) == head(len(vm.stack)) - (%s) + 1", ex)
					e.Assert(base+"/post[stack]", "post", fr.fn.String(), st, e.evalBool(g, env), g)
					gb := fmt.Sprintf("forall(k, 0, head(len(vm.stack)) - (%s), vm.stack[k] == head(vm.stack[k]))", ex)
					e.Assert(base+"/post[below]", "post", fr.fn.String(), st, e.evalBool(gb, env), gb)
				case "operand":
					// instructions without a jump operand advance ip by their own size
					sz := 0
					switch strings.TrimSpace(ex) {
					case "none":
						sz = 1
					case "const", "cast":
						sz = 3
					}
					if sz > 0 {
						g := fmt.Sprintf("vm.ip == head(vm.ip) + %d && vm.pp == head(vm.ip)", sz)
						e.Assert(base+"/post[ip]", "post", fr.fn.String(), st, e.evalBool(g, env), g)
					}
				case "scopes":
					var d int
					fmt.Sscanf(ex, "%d", &d)
					g := fmt.Sprintf("len(vm.scopes) == head(len(vm.scopes)) + %d", d)
					if d < 0 {
						g = fmt.Sprintf("len(vm.scopes) == head(len(vm.scopes)) - %d", -d)
					}
					e.Assert(base+"/post[scopes]", "post", fr.fn.String(), st, e.evalBool(g, env), g)
				}
			}
		}
		if e.BackEdgeHook != nil {
			e.BackEdgeHook(e, st, fr, b, label, env)
		}
		return true
	}
	// ---- entry
	for k, v := range incoming {
		fr.vals[k] = v
	}
	preState := st.Clone()
	preFrame := fr.Clone()
	preLookup := e.nameLookup(preState, preFrame, b)
	env := mkEnv(st, fr)
	env.pre, env.preLookup, env.water0 = preState, preLookup, st.water
	if fr.ct != nil {
		for _, c := range fr.ct.Cases[ord] {
			kw, _, ex := splitCaseClause(c.Expr)
			if kw == "assume-compiled" {
				st.Assume(e.evalBool(ex, env))
				e.Note("assumed for compiled programs (to be established by the compiler contracts): case %s: %s", ord, ex)
			}
		}
	}
	for _, a := range spec.EntryAsserts {
		// asserted, not assumed: the invariants below must hold on their own
		e.AddVC(fmt.Sprintf("%s/loop:%s/entry[%s]", fname, ord, a.Label), "post", fr.fn.String(), st, Not(e.evalBool(a.Expr, env)), a.Expr)
	}
	for _, inv := range spec.Invariants {
		e.Assert(fmt.Sprintf("%s/loop:%s/inv-init[%s]", fname, ord, inv.Label), "inv-init", fr.fn.String(), st, e.evalBool(inv.Expr, env), inv.Expr)
	}
	objs, flocs := e.frameMembers(spec, env)
	framed := len(spec.Modifies) > 0
	water0 := st.water
	// havoc phis
	for _, in := range b.Instrs {
		phi, ok := in.(*ssa.Phi)
		if !ok {
			break
		}
		fr.vals[phi] = e.havocLike(st, incoming[phi], phi.Comment)
	}
	body := loopBody(b)
	keys, all := e.loopWrites(fr.fn, body)
	var ks []string
	for k := range st.mem {
		if all || keys[k] {
			ks = append(ks, k)
		}
	}
	// memories not yet touched on this path but written in the loop
	if !all {
		for k := range keys {
			if _, ok := st.mem[k]; !ok {
				e.ensureMem(st, k)
				ks = append(ks, k)
			}
		}
	}
	sort.Strings(ks)
	for _, k := range ks {
		old := st.mem[k]
		nw := Fresh("Ml_"+sortKey(k), old.Sort)
		if framed {
			st.AddQFact(nw, frameFact(old, nw, objs, flocs, water0))
		}
		st.mem[k] = nw
	}
	// fields of struct parameters that are syntactically outside the frame keep
	// their values: record the equalities (consequences of the frame formula)
	// so that later loads simplify to the pre-loop terms.
	if framed {
		for _, prm := range fr.fn.Params {
			pt, ok := prm.Type().Underlying().(*types.Pointer)
			if !ok {
				continue
			}
			if _, ok := pt.Elem().Underlying().(*types.Struct); !ok {
				continue
			}
			base := fr.vals[prm].One()
			for j, srt := range leafSorts(pt.Elem()) {
				l := LocField(base, j)
				outside := true
				for _, o := range objs {
					if Eq(LObj(l), o) != False {
						outside = false
					}
				}
				for _, f := range flocs {
					if Eq(l, f) != False {
						outside = false
					}
				}
				if !outside {
					continue
				}
				key := "M:" + srt
				nw, ok1 := st.mem[key]
				old, ok2 := preState.mem[key]
				if !ok1 || !ok2 || nw == old {
					continue
				}
				lhs, rhs := Select(nw, l), Select(old, l)
				if lhs == rhs {
					continue
				}
				st.Assume(Eq(lhs, rhs))
				if st.subst == nil {
					st.subst = map[*Term]*Term{}
				}
				st.subst[lhs] = rhs
			}
		}
	}
	// local variable cells that the loop provably never writes keep their value
	for _, blk := range fr.fn.Blocks {
		for _, in := range blk.Instrs {
			a, ok := in.(*ssa.Alloc)
			if !ok {
				continue
			}
			v, ok := fr.vals[a]
			if !ok || !stableCell(a, body) {
				continue
			}
			T := a.Type().(*types.Pointer).Elem()
			if _, isArr := T.Underlying().(*types.Array); isArr {
				continue
			}
			e.storeT(st, v.One(), e.loadT(preState, v.One(), T))
		}
	}
	st.water = FreshWater("Wl")
	st.pc = append(st.pc, App(">=", SBool, st.water, water0))
	if st.allocs != nil && loopMayAllocate(body) {
		st.allocs = Fresh("galloc", SBV(64))
	}
	if spec.PanicSummary {
		// the recover handler is explored once, from the generalised mid-loop
		// state (any memory within the loop's frame); panics inside the loop
		// then only have to show that the writes so far respect the frame.
		ss, sf := st.Clone(), fr.Clone()
		sf.loopSnap[b] = nil
		delete(sf.loopSnap, b)
		e.doPanic(ss, sf, Fresh("panicval", SVal))
	}
	env = mkEnv(st, fr)
	env.pre, env.preLookup, env.water0 = preState, preLookup, water0
	for _, inv := range spec.Invariants {
		st.Assume(e.evalBool(inv.Expr, env))
	}
	if len(spec.Invariants) > 0 {
		// vacuity guard: the invariant (with the path to the loop) is satisfiable
		nm := fmt.Sprintf("%s/loop:%s/inv-sat", fname, ord)
		if e.oblIdx[nm] == nil {
			o := &Obligation{Name: nm, Kind: "cover", Expect: "sat", Func: fr.fn.String(), Meta: map[string]string{}}
			// quantified conjuncts are dropped from the guard: a satisfiability answer for them is not something the
			// solvers give reliably (the guard is about contradictions among the ground facts)
			as := []*Term{True}
			for _, p := range st.pc {
				if p.Op != "forall" && p.Op != "exists" && !p.Bound {
					as = append(as, p)
				}
			}
			o.VCs = append(o.VCs, &VC{Asserts: as, Seq: nextVCSeq()})
			e.oblIdx[nm] = o
			e.obls = append(e.obls, o)
		}
	}
	ns := &loopSnapshot{summarized: spec.PanicSummary, spec: spec, ord: ord, pre: preState, preLookup: preLookup, water: water0, objs: objs, flocs: flocs, framed: framed, headMem: map[string]*Term{}}
	for k, v := range st.mem {
		ns.headMem[k] = v
	}
	ns.headState = st.Clone()
	if spec.Decreases != "" {
		ns.dec = coerceInt(e.evalSpec(spec.Decreases, env), tInt).One()
	}
	if spec.LabelBy != "" {
		ns.labelTerm = e.evalSpec(spec.LabelBy, env).One()
	}
	ns.head = st.Clone()
	ns.headLookup = e.nameLookup(ns.head, fr.Clone(), b)
	fr.loopSnap[b] = ns
	if e.LoopHeadHook != nil {
		e.LoopHeadHook(e, st, fr, b, env)
	}
	e.runFrom(st, fr, b, 0)
	return true
}

// ensureMem makes sure a memory array exists under key k.
func (e *Exec) ensureMem(st *State, k string) {
	parts := strings.SplitN(k, ":", 2)
	switch parts[0] {
	case "M":
		st.Mem(parts[1])
	case "MH":
		st.MapHas(parts[1])
	case "MV":
		// MV:<ks>:<j>:<vs> — sorts may contain ':'? they do not.
		f := strings.SplitN(parts[1], ":", 3)
		var j int
		fmt.Sscanf(f[1], "%d", &j)
		st.MapVal(f[0], j, f[2])
	}
}

// splitCaseClause parses "ensures[label] expr".
func splitCaseClause(s string) (kw, label, expr string) {
	s = strings.TrimSpace(s)
	i := strings.IndexAny(s, " \t")
	if i < 0 {
		return s, "", ""
	}
	kw = s[:i]
	expr = strings.TrimSpace(s[i:])
	if j := strings.Index(kw, "["); j >= 0 && strings.HasSuffix(kw, "]") {
		label = kw[j+1 : len(kw)-1]
		kw = kw[:j]
	}
	if label == "" {
		label = "p"
	}
	return
}

// stableCell: the local variable cell a is never written inside the loop body
// (nor through a closure that captures it), and its address does not escape.
func stableCell(a *ssa.Alloc, body map[*ssa.BasicBlock]bool) bool {
	refs := a.Referrers()
	if refs == nil {
		return false
	}
	for _, r := range *refs {
		switch r := r.(type) {
		case *ssa.Store:
			if r.Addr != ssa.Value(a) || body[r.Block()] {
				return false
			}
		case *ssa.UnOp, *ssa.DebugRef:
		case *ssa.MakeClosure:
			fn := r.Fn.(*ssa.Function)
			for i, b := range r.Bindings {
				if b != ssa.Value(a) {
					continue
				}
				fv := fn.FreeVars[i]
				if fv.Referrers() == nil {
					return false
				}
				for _, rr := range *fv.Referrers() {
					switch rr.(type) {
					case *ssa.UnOp, *ssa.DebugRef:
					default:
						return false
					}
				}
			}
		default:
			return false
		}
	}
	return true
}

var loopBodyMemo = map[*ssa.BasicBlock]map[*ssa.BasicBlock]bool{}

func loopBodyCached(h *ssa.BasicBlock) map[*ssa.BasicBlock]bool {
	if m, ok := loopBodyMemo[h]; ok {
		return m
	}
	m := loopBody(h)
	loopBodyMemo[h] = m
	return m
}

// panicSummarized: a panic raised inside a loop whose handler has been
// summarised only needs its frame obligation; the path then ends.
func (e *Exec) panicSummarized(st *State, fr *Frame, pv *Term) bool {
	for h, snap := range fr.loopSnap {
		if snap == nil || !snap.summarized || fr.cur == nil || !loopBodyCached(h)[fr.cur] {
			continue
		}
		fname := shortName(fr.fn)
		env := &SpecEnv{e: e, st: st, old: fr.entryState, vars: map[string]*Value{}, fn: fr.fn, bound: map[string]*Value{}}
		env.lookup = e.nameLookup(st, fr, h)
		label := e.pathLabel(st, fr, snap.spec, env)
		if snap.framed {
			var keys []string
			for k := range st.mem {
				keys = append(keys, k)
			}
			sort.Strings(keys)
			var fs []*Term
			for _, k := range keys {
				hm, ok := e.headMemOf(snap, k)
				if !ok || hm == st.mem[k] {
					continue
				}
				fs = append(fs, frameFormula(hm, st.mem[k], snap.objs, snap.flocs, snap.water))
			}
			e.Assert(fmt.Sprintf("%s/loop:%s%s/frame-at-panic", fname, snap.ord, label), "frame", fr.fn.String(), st, And(fs...), "writes before a failure stay inside the modifies clause")
		}
		return true
	}
	return false
}

var labelDbg int

func labelTermOf(fr *Frame, spec *LoopSpec) *Term {
	for _, snap := range fr.loopSnap {
		if snap != nil && snap.spec == spec && snap.labelTerm != nil {
			return snap.labelTerm
		}
	}
	return nil
}

// loopMayAllocate: the loop body contains an allocation site or a call.
func loopMayAllocate(body map[*ssa.BasicBlock]bool) bool {
	for b := range body {
		for _, in := range b.Instrs {
			switch in.(type) {
			case *ssa.MakeSlice, *ssa.MakeMap, *ssa.MapUpdate, ssa.CallInstruction:
				return true
			}
		}
	}
	return false
}

// assertArgsNotOwned: at a call of a function value supplied by the
// environment, no argument may point into an object of an enclosing loop's
// modifies clause (the memory the library owns and keeps writing): the callee
// is assumed not to touch that memory, which is only justified if it cannot
// reach it. Evaluated in the current state (obj(vm.stack) moves as it grows).
func (e *Exec) assertArgsNotOwned(st *State, fr *Frame, args []*Value) {
	for h, snap := range fr.loopSnap {
		if snap == nil || !snap.framed || fr.cur == nil || !loopBodyCached(h)[fr.cur] {
			continue
		}
		env := &SpecEnv{e: e, st: st, old: fr.entryState, vars: map[string]*Value{}, fn: fr.fn, bound: map[string]*Value{}}
		env.lookup = e.nameLookup(st, fr, h)
		label := e.pathLabel(st, fr, snap.spec, env)
		objs, _ := e.frameMembers(snap.spec, env)
		var gs []*Term
		for _, a := range args {
			for _, l := range a.L {
				var ptrs []*Term
				switch l.Sort {
				case SLoc:
					ptrs = append(ptrs, l)
				case SVal:
					c := ctorOf(l)
					if c == "" || c == "VSlice" {
						ptrs = append(ptrs, Ite(Is("VSlice", l), VSel("sl_ptr", l), NilLoc))
					}
					if c == "" || c == "VPtr" {
						ptrs = append(ptrs, Ite(Is("VPtr", l), VSel("ptr_of", l), NilLoc))
					}
				}
				for _, p := range ptrs {
					for _, o := range objs {
						gs = append(gs, Or(Eq(p, NilLoc), Not(Eq(LObj(p), o))))
					}
				}
			}
		}
		if len(gs) > 0 {
			e.Assert(fmt.Sprintf("%s/loop:%s%s/env-call:args-not-owned", shortName(fr.fn), snap.ord, label), "frame", fr.fn.String(), st, And(gs...), "arguments handed to an environment function do not point into memory the library owns")
		}
	}
}

// pathLabelOf: "/loop:<ord>[label]" of the innermost enclosing labelled loop of the current block ("" if none).
func (e *Exec) pathLabelOf(st *State, fr *Frame) string {
	for h, snap := range fr.loopSnap {
		if snap == nil || snap.spec == nil || snap.spec.LabelBy == "" || fr.cur == nil || !loopBodyCached(h)[fr.cur] {
			continue
		}
		env := &SpecEnv{e: e, st: st, old: fr.entryState, vars: map[string]*Value{}, fn: fr.fn, bound: map[string]*Value{}}
		env.lookup = e.nameLookup(st, fr, h)
		return fmt.Sprintf("/loop:%s%s", snap.ord, e.pathLabel(st, fr, snap.spec, env))
	}
	return ""
}

// rvIsValid: (reflect.Value).IsValid as the engine models it.
func rvIsValid(rv *Term) *Term {
	return UF(sanitize("(reflect.Value).IsValid")+"_00", SBool, rv)
}

func init() {
	// isvalid(v): a reflect.Value is not the zero Value
	specFuncs["isvalid"] = func(env *SpecEnv, a []*Value) *Value {
		return &Value{T: tBool, L: []*Term{rvIsValid(a[0].One())}}
	}
}

// noExplicitPanicCheck: a panic statement of the function itself, reached
// under the header of a labelled loop (the statement's block is not part of
// the natural loop: it never returns to the header), in a case whose contract
// says `no-explicit-panic`.
func (e *Exec) noExplicitPanicCheck(st *State, fr *Frame, blk *ssa.BasicBlock) {
	if fr.ct == nil {
		return
	}
	for h, snap := range fr.loopSnap {
		if snap == nil || snap.spec == nil || snap.spec.LabelBy == "" || !h.Dominates(blk) {
			continue
		}
		env := &SpecEnv{e: e, st: st, old: fr.entryState, vars: map[string]*Value{}, fn: fr.fn, bound: map[string]*Value{}}
		env.lookup = e.nameLookup(st, fr, h)
		label := e.pathLabel(st, fr, snap.spec, env)
		for _, c := range fr.ct.Cases[strings.Trim(label, "[]")] {
			kw, _, _ := splitCaseClause(c.Expr)
			if kw == "no-explicit-panic" {
				e.AddVC(fmt.Sprintf("%s/loop:%s%s/no-explicit-panic", shortName(fr.fn), snap.ord, label), "post", fr.fn.String(), st, True, "the instruction fails only where its helper (or an operand assertion) fails")
			}
		}
	}
}


// headMemOf: the memory of key k at the loop head. A memory sort that was not
// touched before the head has, at the head, its canonical initial array
// (provided no unframed havoc happened before: then nothing is known and the
// comparison is skipped, as it would be unprovable).
func (e *Exec) headMemOf(snap *loopSnapshot, k string) (*Term, bool) {
	if h, ok := snap.headMem[k]; ok {
		return h, true
	}
	if snap.headState == nil || snap.headState.epoch > 0 {
		return nil, false
	}
	tmp := snap.headState.Clone()
	e.ensureMem(tmp, k)
	h, ok := tmp.mem[k]
	return h, ok
}

// storeGuards: `schema store-guard <Field> <expr>` in a function's contract:
// wherever the function assigns that struct field, the expression (over the
// names in scope there) holds.
func (e *Exec) storeGuards(st *State, fr *Frame, in *ssa.Store) {
	if fr.ct == nil || len(fr.ct.Schemas) == 0 {
		return
	}
	fa, ok := in.Addr.(*ssa.FieldAddr)
	if !ok {
		return
	}
	pt, ok := fa.X.Type().Underlying().(*types.Pointer)
	if !ok {
		return
	}
	stt, ok := pt.Elem().Underlying().(*types.Struct)
	if !ok {
		return
	}
	fname := stt.Field(fa.Field).Name()
	for _, sc := range fr.ct.Schemas {
		if len(sc) < 3 || sc[0] != "store-guard" || sc[1] != fname {
			continue
		}
		expr := strings.Join(sc[2:], " ")
		env := &SpecEnv{e: e, st: st, old: fr.entryState, vars: map[string]*Value{}, fn: fr.fn, bound: map[string]*Value{}}
		env.lookup = e.nameLookup(st, fr, in.Block())
		e.Assert(fmt.Sprintf("%s/store-guard[%s]", shortName(fr.fn), fname), "post", fr.fn.String(), st, e.evalBool(expr, env), "where "+fname+" is assigned: "+expr)
	}
}

func init() {
	// elem(t): element type of a reflect.Type (slice, array, map, pointer, chan)
	specFuncs["elem"+"type"] = func(env *SpecEnv, a []*Value) *Value {
		return &Value{T: env.e.W.reflectType(), L: []*Term{UF("rt_elem", SInt, a[0].One())}}
	}
}

func init() {
	// rvkind(v), rvisnil(v): reflect.ValueOf(v).Kind() / .IsNil() as the engine models them
	specFuncs["rvkind"] = func(env *SpecEnv, a []*Value) *Value {
		return &Value{T: tInt, L: []*Term{UF(sanitize("(reflect.Value).Kind")+"_00", SBV(64), UF("rv_of", SRV, a[0].One()))}}
	}
	specFuncs["rvisnil"] = func(env *SpecEnv, a []*Value) *Value {
		return &Value{T: tBool, L: []*Term{UF(sanitize("(reflect.Value).IsNil")+"_00", SBool, UF("rv_of", SRV, a[0].One()))}}
	}
}
