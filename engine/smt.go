package main

import (
	"bytes"
	"context"
	"fmt"
	"os"
	"os/exec"
	"path/filepath"
	"strings"
	"sync"
	"time"
)

type SolveResult struct {
	Status  string // "unsat" | "sat" | "unknown"
	Solver  string
	Seconds float64
	Output  string // raw output of the deciding (or last) solver
	Model   string
}

type solverDef struct {
	name string
	argv func(file string, timeoutS int) []string
	pre  string // options placed before the prelude
}

var solvers = []solverDef{
	{"z3-new", func(f string, t int) []string { return []string{"z3-new", fmt.Sprintf("-T:%d", t), f} }, ""},
	{"z3", func(f string, t int) []string { return []string{"z3", fmt.Sprintf("-T:%d", t), f} }, ""},
	{"cvc5", func(f string, t int) []string {
		return []string{"cvc5", "--produce-models", fmt.Sprintf("--tlimit=%d", t*1000), f}
	}, "(set-logic ALL)\n"},
}

var scratchDir string
var scratchOnce sync.Once

func scratch() string {
	scratchOnce.Do(func() {
		d, err := os.MkdirTemp("", "verif-smt-")
		if err != nil {
			panic(err)
		}
		scratchDir = d
	})
	return scratchDir
}

func cleanupScratch() {
	if scratchDir != "" {
		os.RemoveAll(scratchDir)
	}
}

var fileSeq int
var fileMu sync.Mutex

func runOne(sd solverDef, body string, wantModel bool, timeoutS int, ctx context.Context) SolveResult {
	fileMu.Lock()
	fileSeq++
	fn := filepath.Join(scratch(), fmt.Sprintf("q%d_%s.smt2", fileSeq, sd.name))
	fileMu.Unlock()
	script := sd.pre + body + "(check-sat)\n"
	if wantModel {
		script += "(get-model)\n"
	}
	os.WriteFile(fn, []byte(script), 0o644)
	defer os.Remove(fn)
	argv := sd.argv(fn, timeoutS)
	cctx, cancel := context.WithTimeout(ctx, time.Duration(timeoutS+2)*time.Second)
	defer cancel()
	cmd := exec.CommandContext(cctx, argv[0], argv[1:]...)
	var out bytes.Buffer
	cmd.Stdout = &out
	cmd.Stderr = &out
	t0 := time.Now()
	cmd.Run()
	el := time.Since(t0).Seconds()
	o := out.String()
	first := strings.TrimSpace(strings.SplitN(o, "\n", 2)[0])
	st := "unknown"
	switch first {
	case "sat", "unsat":
		st = first
	}
	r := SolveResult{Status: st, Solver: sd.name, Seconds: el, Output: o}
	if st == "sat" {
		if i := strings.Index(o, "\n"); i >= 0 {
			r.Model = o[i+1:]
		}
	}
	return r
}

// Solve races the solvers. quick: z3-new alone first with a short timeout
// (most obligations are decided there in milliseconds), then all three.
func Solve(body string, timeoutS int) SolveResult {
	first := solvers[0]
	firstT := min(timeoutS, 3)
	if strings.Contains(body, "(forall ") || strings.Contains(body, "(exists ") {
		// quantified goals: cvc5 answers these in milliseconds where z3 may time out
		first = solvers[2]
		firstT = min(timeoutS, 2)
	}
	r := runOne(first, body, true, firstT, context.Background())
	if r.Status != "unknown" {
		return r
	}
	total := r.Seconds
	ctx, cancel := context.WithCancel(context.Background())
	defer cancel()
	ch := make(chan SolveResult, len(solvers))
	for _, sd := range solvers {
		go func(sd solverDef) { ch <- runOne(sd, body, true, timeoutS, ctx) }(sd)
	}
	var last SolveResult
	for range solvers {
		x := <-ch
		if x.Status != "unknown" {
			x.Seconds += total
			return x
		}
		last = x
	}
	last.Seconds += total
	last.Solver = "none"
	return last
}

// SolveAll runs every solver to completion (thorough tier: agreement).
func SolveAll(body string, timeoutS int) []SolveResult {
	var wg sync.WaitGroup
	res := make([]SolveResult, len(solvers))
	for i, sd := range solvers {
		wg.Add(1)
		go func(i int, sd solverDef) {
			defer wg.Done()
			res[i] = runOne(sd, body, true, timeoutS, context.Background())
		}(i, sd)
	}
	wg.Wait()
	return res
}
