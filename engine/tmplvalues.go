package main

// Layer B, value clauses (C01): every loop-free emission trace is executed on
// an abstract VM that computes the value left on the stack as a term over
//   ev(child)            the value of a child segment (contract of compile),
//   pure_vm.<helper>(..) the run-time helpers (their contracts are C14),
// with the per-opcode value semantics of VM.Run's case contracts (proved
// against the real case bodies), and compared with the reference semantics of
// the node kind, written here from docs/Language-Definition.md. The sequence
// of child segments evaluated on each path is compared too (short-circuit,
// left-to-right, exactly once).

import (
	"fmt"
	"go/types"
	"regexp"
	"strings"
)

func evOf(child *Term) *Term { return UF("ev", SVal, child) }

var envSym = Leaf("ENV", SVal)

func pureRes(name string, sort string, args ...*Term) *Term {
	return UF(pureResultName(name, 0), sort, args...)
}

type vState struct {
	stack []*Term
	extra []*Term
	evs   []*Term
}

func (v *vState) clone() *vState {
	return &vState{stack: append([]*Term(nil), v.stack...), extra: append([]*Term(nil), v.extra...), evs: append([]*Term(nil), v.evs...)}
}
func (v *vState) push(t *Term) { v.stack = append(v.stack, t) }
func (v *vState) pop() *Term {
	if len(v.stack) == 0 {
		return Fresh("underflow", SVal)
	}
	t := v.stack[len(v.stack)-1]
	v.stack = v.stack[:len(v.stack)-1]
	return t
}

func helperOf(op string) string {
	return map[string]string{"OpEqual": "vm.equal", "OpLess": "vm.less", "OpMore": "vm.more", "OpLessOrEqual": "vm.lessOrEqual", "OpMoreOrEqual": "vm.moreOrEqual",
		"OpAdd": "vm.add", "OpSubtract": "vm.subtract", "OpMultiply": "vm.multiply", "OpDivide": "vm.divide", "OpModulo": "vm.modulo"}[op]
}

// expectedOf: reference semantics of the node kind on this trace's label:
// the value and the children evaluated (in order), possibly as ite over the
// values of earlier children. ch(field) is the child's node value.
func expectedOf(tr *tTrace, label string, lay astLayout) (val *Term, evs func(extra *vState) []*Term, ok bool) {
	st := tr.St
	ch := func(kind, field string) *Term { return st.Load(LocField(tr.Node, lay.off(kind, field)), SVal) }
	seq := func(ts ...*Term) func(*vState) []*Term { return func(*vState) []*Term { return ts } }
	bin := func(name string) *Term { return pureRes(name, SVal, evOf(ch("BinaryNode", "Left")), evOf(ch("BinaryNode", "Right"))) }
	switch tr.Method {
	case "NilNode":
		return VNil, seq(), true
	case "BoolNode":
		return VCtor("VBool", st.Load(LocField(tr.Node, lay.off("BoolNode", "Value")), SBool)), seq(), true
	case "FloatNode":
		return VCtor("VF64", st.Load(LocField(tr.Node, lay.off("FloatNode", "Value")), SF64)), seq(), true
	case "StringNode":
		return VCtor("VStr", st.Load(LocField(tr.Node, lay.off("StringNode", "Value")), SStr)), seq(), true
	case "ConstantNode":
		return st.Load(LocField(tr.Node, lay.off("ConstantNode", "Value")), SVal), seq(), true
	case "ClosureNode":
		c := ch("ClosureNode", "Node")
		return evOf(c), seq(c), true
	case "UnaryNode":
		c := ch("UnaryNode", "Node")
		switch label {
		case "!", "not":
			return VCtor("VBool", Not(VSel("b_of", evOf(c)))), seq(c), true
		case "-":
			return pureRes("vm.negate", SVal, evOf(c)), seq(c), true
		case "+":
			return evOf(c), seq(c), true
		}
	case "BinaryNode":
		l, r := ch("BinaryNode", "Left"), ch("BinaryNode", "Right")
		both := seq(l, r)
		short := func(takeRightWhen func(lv *Term) *Term) (*Term, func(*vState) []*Term, bool) {
			lv := evOf(l)
			c := takeRightWhen(lv)
			return Ite(c, evOf(r), lv), func(v *vState) []*Term {
				// the right operand is evaluated exactly when it is needed
				return nil
			}, true
		}
		switch label {
		case "==":
			return bin("vm.equal"), both, true
		case "!=":
			return VCtor("VBool", Not(VSel("b_of", bin("vm.equal")))), both, true
		case "or", "||":
			return short(func(lv *Term) *Term { return Not(VSel("b_of", lv)) })
		case "and", "&&":
			return short(func(lv *Term) *Term { return VSel("b_of", lv) })
		case "in":
			return VCtor("VBool", pureRes("vm.in", SBool, evOf(l), evOf(r))), both, true
		case "not in":
			return VCtor("VBool", Not(pureRes("vm.in", SBool, evOf(l), evOf(r)))), both, true
		case "<":
			return bin("vm.less"), both, true
		case ">":
			return bin("vm.more"), both, true
		case "<=":
			return bin("vm.lessOrEqual"), both, true
		case ">=":
			return bin("vm.moreOrEqual"), both, true
		case "+":
			return bin("vm.add"), both, true
		case "-":
			return bin("vm.subtract"), both, true
		case "*":
			return bin("vm.multiply"), both, true
		case "/":
			return bin("vm.divide"), both, true
		case "%":
			return bin("vm.modulo"), both, true
		case "**":
			return VCtor("VF64", pureRes("vm.exponent", SF64, evOf(l), evOf(r))), both, true
		case "contains":
			return VCtor("VBool", UF("strings.Contains_r00", SBool, VSel("str_of", evOf(l)), VSel("str_of", evOf(r)))), both, true
		case "startsWith":
			return VCtor("VBool", UF("strings.HasPrefix_r00", SBool, VSel("str_of", evOf(l)), VSel("str_of", evOf(r)))), both, true
		case "endsWith":
			return VCtor("VBool", UF("strings.HasSuffix_r00", SBool, VSel("str_of", evOf(l)), VSel("str_of", evOf(r)))), both, true
		case "..":
			return UF("rangeval", SVal, evOf(l), evOf(r)), both, true
		}
	case "IndexNode":
		n, i := ch("IndexNode", "Node"), ch("IndexNode", "Index")
		return pureRes("vm.fetch", SVal, evOf(n), evOf(i), False), seq(n, i), true
	case "PropertyNode":
		n := ch("PropertyNode", "Node")
		name := VCtor("VStr", st.Load(LocField(tr.Node, lay.off("PropertyNode", "Property")), SStr))
		nilsafe := st.Load(LocField(tr.Node, lay.off("PropertyNode", "NilSafe")), SBool)
		return pureRes("vm.fetch", SVal, evOf(n), name, nilsafe), seq(n), true
	case "IdentifierNode":
		name := VCtor("VStr", st.Load(LocField(tr.Node, lay.off("IdentifierNode", "Value")), SStr))
		nilsafe := st.Load(LocField(tr.Node, lay.off("IdentifierNode", "NilSafe")), SBool)
		mapEnv := st.Load(LocField(tr.C, compilerFieldOffset(lay.w, "mapEnv")), SBool)
		return Ite(mapEnv, UF("fetchmap", SVal, envSym, name), pureRes("vm.fetch", SVal, envSym, name, nilsafe)), seq(), true
	case "ConditionalNode":
		c, a, b := ch("ConditionalNode", "Cond"), ch("ConditionalNode", "Exp1"), ch("ConditionalNode", "Exp2")
		return Ite(VSel("b_of", evOf(c)), evOf(a), evOf(b)), nil, true
	case "SliceNode":
		n := ch("SliceNode", "Node")
		from, to := ch("SliceNode", "From"), ch("SliceNode", "To")
		fv := Ite(Eq(from, VNil), VCtor("VInt", BV64(0)), evOf(from))
		tv := Ite(Eq(to, VNil), VCtor("VInt", pureRes("vm.length", SBV(64), evOf(n))), evOf(to))
		return pureRes("vm.slice", SVal, evOf(n), fv, tv), nil, true
	case "MatchesNode":
		l, r := ch("MatchesNode", "Left"), ch("MatchesNode", "Right")
		re := st.Load(LocField(tr.Node, lay.off("MatchesNode", "Regexp")), SLoc)
		dyn := VCtor("VBool", UF("regexp.MatchString_v0", SBool, VSel("str_of", evOf(r)), VSel("str_of", evOf(l))))
		cst := VCtor("VBool", UF("__regexp.Regexp_.MatchString_r00", SBool, re, VSel("str_of", evOf(l))))
		return Ite(Eq(re, NilLoc), dyn, cst), nil, true
	case "PairNode":
		return nil, nil, false
	}
	return nil, nil, false
}

func checkTemplateValues(w *World, e *Exec, traces []*tTrace) {
	lay := astLayout{w}
	eff := opEffects(w)
	sem := opValueClauses(w, "value")
	opt := opValueClauses(w, "operand-type")
	for _, tr := range traces {
		if tr.Panics || tr.Failed != "" {
			continue
		}
		// the element count handed to OpArray / OpMap by a literal is a non-negative int (VM.Run's case contracts for
		// these opcodes assume it of compiled programs)
		for i, it := range tr.Items {
			if it.Kind == "emit" && (it.OpName == "OpArray" || it.OpName == "OpMap") && i > 0 && tr.Items[i-1].Kind == "emit" && tr.Items[i-1].OpName == "OpPush" && tr.Items[i-1].Const != nil {
				c := tr.Items[i-1].Const
				s2 := tr.St.Clone()
				e.AddVC(traceName(tr, traceLabel(tr))+"/size-nonneg", "tmpl", "compiler."+tr.Method, s2, Not(And(Is("VInt", c), BVCmp("bvsge", VSel("int_of", c), BV64(0)))),
					"the size operand of "+it.OpName+" is a non-negative int [emission path "+tr.Sig+"]")
			}
		}
		hasLoop := false
		for _, it := range tr.Items {
			if it.Kind == "emit" && it.Operand == "back" || it.Kind == "rep" {
				hasLoop = true
			}
		}
		if hasLoop {
			continue
		}
		label := traceLabel(tr)
		name := traceName(tr, label)
		if tr.Method == "IntegerNode" {
			checkIntegerPush(w, e, tr, name)
			continue
		}
		exp, _, ok := expectedOf(tr, label, lay)
		if !ok {
			continue
		}
		items := tr.Items
		patchOf := map[int]int{}
		for i, it := range items {
			if it.Kind == "patch" {
				patchOf[it.Ref] = i
			}
		}
		st := tr.St
		add := func(clause string, extra []*Term, goal *Term, desc string) {
			s2 := st.Clone()
			for _, x := range extra {
				s2.Assume(x)
			}
			assumePureEnsures(e, s2, goal)
			e.AddVC(name+"/"+clause, "tmpl", "compiler."+tr.Method, s2, Not(goal), desc+" [emission path "+tr.Sig+"]")
		}
		// expected evaluation order of the children, under the path's assumptions, is derived from the
		// reference semantics: or/and/?: evaluate the later operand only when needed
		var run func(i int, v *vState, fuel int)
		run = func(i int, v *vState, fuel int) {
			for ; i < len(items); i++ {
				if fuel <= 0 {
					return
				}
				fuel--
				it := items[i]
				switch it.Kind {
				case "patch":
					continue
				case "seg":
					v.evs = append(v.evs, it.Child)
					v.push(evOf(it.Child))
					v.extra = append(v.extra, typingAssumption(it.Child))
					continue
				}
				ef := eff[it.OpName]
				if ef == nil {
					return
				}
				switch it.OpName {
				case "OpJump":
					i = patchOf[i]
					continue
				case "OpJumpIfTrue", "OpJumpIfFalse":
					t := v.stack[len(v.stack)-1]
					c := VSel("b_of", t)
					if it.OpName == "OpJumpIfFalse" {
						c = Not(c)
					}
					b := v.clone()
					b.extra = append(b.extra, c)
					v.extra = append(v.extra, Not(c))
					run(patchOf[i]+1, b, fuel)
					continue
				case "OpPop":
					v.pop()
				case "OpRange":
					b, a := v.pop(), v.pop()
					v.push(UF("rangeval", SVal, a, b))
				case "OpFetchMap":
					v.push(UF("fetchmap", SVal, envSym, it.Const))
				default:
					// a specialised instruction survives only on operands of its type (clause proved on VM.Run's case body)
					if oc := opt[it.OpName]; oc != "" {
						if g := evalOperandClause(e, st, oc, v, &it); g != nil {
							add("operand-type", v.extra, g, it.OpName+" is selected only where the static types guarantee the operand cells it asserts")
						}
					}
					// the opcode's value clause proved on VM.Run's case body
					if !applyValueClause(e, st, sem[it.OpName], ef, v, &it) {
						add("value", v.extra, False, "the value semantics of "+it.OpName+" is not part of the loop-free fragment")
						return
					}
				}
			}
			if len(v.stack) != 1 {
				add("value", v.extra, False, fmt.Sprintf("the segment leaves %d values", len(v.stack)))
				return
			}
			add("value", v.extra, Eq(v.stack[0], exp), "the value left by the segment is the documented operation applied to the values of the children")
			// children evaluated on this path: each at most once, in source order, the later operand of or / and / ?: only when needed
			add("evaluates", v.extra, evalOrderOK(tr, label, v, lay), "children are evaluated exactly once, left to right, and only when the definition needs them")
		}
		run(0, &vState{}, 2000)
	}
}

// typingAssumption (trusted; it is C03's soundness statement restricted to the
// two predeclared types the specialised instructions rely on): a child whose
// static type is exactly int (string) evaluates to an int (string) cell.
func typingAssumption(child *Term) *Term {
	t := UF("node_type", SInt, child)
	return And(
		Implies(Eq(t, typeCodeTerm(types.Typ[types.Int])), Is("VInt", evOf(child))),
		Implies(Eq(t, typeCodeTerm(types.Typ[types.String])), Is("VStr", evOf(child))))
}

// assumePureEnsures instantiates, for every application pure_<f>(args) in the
// given terms, the ensures clauses of f's (verified) contract.
func assumePureEnsures(e *Exec, st *State, ts ...*Term) {
	seen := map[*Term]bool{}
	var walk func(t *Term)
	walk = func(t *Term) {
		if t == nil || seen[t] {
			return
		}
		seen[t] = true
		for _, a := range t.Args {
			walk(a)
		}
		if !strings.HasPrefix(t.Op, "pure_") {
			return
		}
		for name, ct := range e.W.Contracts {
			if !ct.Pure || len(ct.Ensures) == 0 || pureResultName(name, 0) != t.Op {
				continue
			}
			fn := e.W.Func(name)
			if fn == nil || len(fn.Params) != len(t.Args) {
				continue
			}
			var args []*Value
			for i, p := range fn.Params {
				args = append(args, &Value{T: p.Type(), L: []*Term{t.Args[i]}})
			}
			env := e.entryEnv(st, fn, args, st)
			for i, n := range ct.Results {
				if i == 0 {
					env.vars[n] = &Value{T: fn.Signature.Results().At(0).Type(), L: []*Term{t}}
				}
			}
			for _, en := range ct.Ensures {
				st.Assume(e.evalBool(en.Expr, env))
			}
		}
	}
	for _, t := range ts {
		walk(t)
	}
}

// evalOrderOK: the evaluated children on this path against the reference rule.
func evalOrderOK(tr *tTrace, label string, v *vState, lay astLayout) *Term {
	st := tr.St
	ch := func(kind, field string) *Term { return st.Load(LocField(tr.Node, lay.off(kind, field)), SVal) }
	same := func(want ...*Term) *Term {
		if len(want) != len(v.evs) {
			return False
		}
		for i := range want {
			if want[i] != v.evs[i] {
				return False
			}
		}
		return True
	}
	switch tr.Method {
	case "BinaryNode":
		l, r := ch("BinaryNode", "Left"), ch("BinaryNode", "Right")
		switch label {
		case "or", "||":
			// right evaluated iff left is false
			return Ite(VSel("b_of", evOf(l)), same(l), same(l, r))
		case "and", "&&":
			return Ite(VSel("b_of", evOf(l)), same(l, r), same(l))
		}
		return same(l, r)
	case "ConditionalNode":
		c, a, b := ch("ConditionalNode", "Cond"), ch("ConditionalNode", "Exp1"), ch("ConditionalNode", "Exp2")
		return Ite(VSel("b_of", evOf(c)), same(c, a), same(c, b))
	case "UnaryNode":
		return same(ch("UnaryNode", "Node"))
	case "ClosureNode":
		return same(ch("ClosureNode", "Node"))
	case "IndexNode":
		return same(ch("IndexNode", "Node"), ch("IndexNode", "Index"))
	case "PropertyNode":
		return same(ch("PropertyNode", "Node"))
	case "MatchesNode":
		l, r := ch("MatchesNode", "Left"), ch("MatchesNode", "Right")
		re := st.Load(LocField(tr.Node, lay.off("MatchesNode", "Regexp")), SLoc)
		return Ite(Eq(re, NilLoc), same(l, r), same(l))
	case "SliceNode":
		n, from, to := ch("SliceNode", "Node"), ch("SliceNode", "From"), ch("SliceNode", "To")
		var want []*Term
		want = append(want, n)
		// left to right: the operand, the lower bound, the upper bound (a missing bound is not evaluated)
		toNil, fromNil := st.Simp(Eq(to, VNil)), st.Simp(Eq(from, VNil))
		if fromNil != True {
			want = append(want, from)
		}
		if toNil != True {
			want = append(want, to)
		}
		return same(want...)
	}
	return same()
}

// checkIntegerPush: an integer literal pushes Go's conversion of its value to
// the static kind the checker gave it (int when there is none).
func checkIntegerPush(w *World, e *Exec, tr *tTrace, name string) {
	if len(tr.Items) != 1 || tr.Items[0].OpName != "OpPush" {
		e.AddVC(name+"/value", "tmpl", "compiler.IntegerNode", tr.St, True, "an integer literal is a single push")
		return
	}
	st := tr.St
	lay := astLayout{w}
	val := st.Load(LocField(tr.Node, lay.off("IntegerNode", "Value")), SBV(64))
	tcode := st.Load(LocField(tr.Node, 2), SInt)
	got := tr.Items[0].Const
	kd := rtKind(tcode)
	x := &Value{T: tInt, L: []*Term{val}}
	exp := VCtor("VInt", val)
	for _, k := range numKinds {
		kk := BV64(int64(reflectKind[k.T.Kind()]))
		conv := e.convert(NewState(), x, k.T)
		exp = Ite(And(Not(Eq(tcode, IntLit(0))), Eq(kd, kk)), boxSimple(k.T, conv.L), exp)
	}
	e.AddVC(name+"/value", "tmpl", "compiler.IntegerNode", st, Not(Eq(got, exp)), "an integer literal pushes its value converted to the static numeric kind (int if none)")
}


// opValueClauses: the `ensures[value]` clause of each opcode from VM.Run's
// contract, as text over hs(k) (k-th entry from the top before the
// instruction), ts(k) (after it), carg(0) (the constant operand) and env.
func opValueClauses(w *World, want string) map[string]string {
	out := map[string]string{}
	ct := w.Contracts["vm.VM.Run"]
	if ct == nil {
		return out
	}
	for name, cls := range ct.Cases {
		for _, c := range cls {
			kw, label, ex := splitCaseClause(c.Expr)
			if kw == "ensures" && label == want {
				out[name] = strings.TrimSpace(ex)
			}
		}
	}
	return out
}

var reHS = regexp.MustCompile(`\b(hs|ts|carg)\((\d)\)`)

// applyValueClause executes one instruction on the value stack by reading the
// clause `ts(1) == E1 && ts(2) == E2 ...`; entries the clause does not define
// become unknown values. Clauses of another shape are outside the fragment.
func applyValueClause(e *Exec, st *State, clause string, ef *opEffect, v *vState, it *tItem) bool {
	if clause == "" || ef == nil || ef.dyn != "" || strings.Contains(clause, "==>") || strings.Contains(clause, "||") {
		return false
	}
	binds := map[string]*Value{"env": {T: tIfaceAny, L: []*Term{envSym}}}
	for k := 1; k <= 3; k++ {
		var t *Term
		if k <= len(v.stack) {
			t = v.stack[len(v.stack)-k]
		} else if k <= ef.pops {
			t = Fresh("underflow", SVal)
		} else {
			continue
		}
		binds[fmt.Sprintf("hs%d", k)] = &Value{T: tIfaceAny, L: []*Term{t}}
	}
	if it.Const != nil {
		binds["carg0"] = &Value{T: tIfaceAny, L: []*Term{it.Const}}
	}
	results := map[int]*Term{}
	ok := true
	for _, conj := range splitTopLevel(clause, "&&") {
		conj = strings.TrimSpace(conj)
		if strings.HasPrefix(conj, "ts(1) == vm.constants[") {
			// OpPush: the constant the operand selects (operand decoding is the operand-kinds obligation)
			if it.Const == nil {
				return false
			}
			results[1] = it.Const
			continue
		}
		i := strings.Index(conj, "==")
		if i < 0 {
			return false
		}
		lhs, rhs := strings.TrimSpace(conj[:i]), strings.TrimSpace(conj[i+2:])
		var k int
		if _, err := fmt.Sscanf(lhs, "ts(%d)", &k); err != nil {
			return false
		}
		rhs = reHS.ReplaceAllString(rhs, "$1$2")
		func() {
			defer func() {
				if r := recover(); r != nil {
					ok = false
				}
			}()
			env := &SpecEnv{e: e, st: st, lookup: func(name string) *Value { return binds[name] }}
			val := env.eval(parseSpec(rhs))
			if len(val.L) != 1 || val.L[0].Sort != SVal {
				ok = false
				return
			}
			results[k] = val.L[0]
		}()
		if !ok {
			return false
		}
	}
	for k := 0; k < ef.pops; k++ {
		v.pop()
	}
	for k := ef.pushes; k >= 1; k-- {
		if t := results[k]; t != nil {
			v.push(t)
		} else {
			v.push(Fresh("unspecified", SVal))
		}
	}
	return true
}

func splitTopLevel(s, sep string) []string {
	var out []string
	depth, last := 0, 0
	for i := 0; i < len(s); i++ {
		switch s[i] {
		case '(', '[':
			depth++
		case ')', ']':
			depth--
		}
		if depth == 0 && strings.HasPrefix(s[i:], sep) {
			out = append(out, s[last:i])
			last = i + len(sep)
			i += len(sep) - 1
		}
	}
	return append(out, s[last:])
}

var tIfaceAny = types.NewInterfaceType(nil, nil)

// evalOperandClause evaluates a clause over hs(k) on the current value stack.
func evalOperandClause(e *Exec, st *State, clause string, v *vState, it *tItem) (g *Term) {
	binds := map[string]*Value{}
	for k := 1; k <= 3 && k <= len(v.stack); k++ {
		binds[fmt.Sprintf("hs%d", k)] = &Value{T: tIfaceAny, L: []*Term{v.stack[len(v.stack)-k]}}
	}
	defer func() {
		if r := recover(); r != nil {
			g = False
		}
	}()
	env := &SpecEnv{e: e, st: st, lookup: func(name string) *Value { return binds[name] }}
	return env.eval(parseSpec(reHS.ReplaceAllString(clause, "$1$2"))).One()
}
