package main

import (
	"fmt"
	"strings"
)

// vmReplay: replay templates for refuted VM.Run obligations. The templates run
// the real VM (in-package test, injected with -overlay) and evaluate the
// violated clause on it; where the solver's model names concrete operands
// they are tried first, followed by a small fixed set of boundary operands.
func vmReplay(o *Obligation, dir string) (string, bool) {
	n := o.Name
	switch {
	case strings.Contains(n, "/loop:0/entry["):
		src := fmt.Sprintf(`package vm

import (
	"reflect"
	"testing"
)

// replay of obligation %s: a VM value reused across runs must behave like a fresh one
func TestVerifReplay(t *testing.T) {
	progs := []*Program{
		{Constants: []interface{}{1, 400000}, Bytecode: []byte{OpPush, 0, 0, OpPush, 1, 0, OpRange, OpLen, OpRot, OpPop}},
		{Constants: []interface{}{1, 2, 3}, Bytecode: []byte{OpPush, 0, 0, OpPush, 1, 0, OpPush, 2, 0, OpArray}},
		{Constants: []interface{}{"x"}, Bytecode: []byte{OpBegin, OpPush, 0, 0, OpStore, 0, 0, OpLoad, 0, 0}},
		{Constants: []interface{}{"a", 1}, Bytecode: []byte{OpPush, 0, 0, OpPush, 1, 0, OpAdd}}, // fails midway
	}
	reused := &VM{}
	for round := 0; round < 8; round++ {
		for i, p := range progs {
			got, gerr := reused.Run(p, nil)
			fresh := &VM{}
			want, werr := fresh.Run(p, nil)
			if !reflect.DeepEqual(got, want) || (gerr == nil) != (werr == nil) {
				t.Fatalf("VIOLATED: round %%d program %%d: reused VM returned (%%v, %%v), fresh VM (%%v, %%v)", round, i, got, gerr, want, werr)
			}
		}
	}
	t.Logf("clause holds on this history")
}
`, n)
		return runReplay(o, dir, "vm", src)
	case strings.Contains(n, "inv-pres[galloc]") || strings.Contains(n, "inv-pres[mem-lo]") || strings.Contains(n, "inv-pres[budget]") || strings.Contains(n, "refused-only-if-needed"):
		src := fmt.Sprintf(`package vm

import "testing"

// replay of obligation %s: vm.memory must equal the number of collection elements created
func TestVerifReplay(t *testing.T) {
	type tc struct {
		name    string
		prog    *Program
		created func(out interface{}) int
	}
	var cases []tc
	for _, mm := range [][2]int{{5, 0}, {0, 5}, {3, 3}, {3, 2}, {-2, 2}, {10, -10}, {0, -1}} {
		mm := mm
		cases = append(cases, tc{"range", &Program{Constants: []interface{}{mm[0], mm[1]}, Bytecode: []byte{OpPush, 0, 0, OpPush, 1, 0, OpRange}},
			func(out interface{}) int { return len(out.([]int)) }})
	}
	cases = append(cases, tc{"array", &Program{Constants: []interface{}{7, 8, 2}, Bytecode: []byte{OpPush, 0, 0, OpPush, 1, 0, OpPush, 2, 0, OpArray}},
		func(out interface{}) int { return len(out.([]interface{})) }})
	cases = append(cases, tc{"map", &Program{Constants: []interface{}{"k", 8, 1}, Bytecode: []byte{OpPush, 0, 0, OpPush, 1, 0, OpPush, 2, 0, OpMap}},
		func(out interface{}) int { return len(out.(map[string]interface{})) }})
	for _, c := range cases {
		v := &VM{}
		out, err := v.Run(c.prog, nil)
		if err != nil {
			t.Fatalf("VIOLATED: %%s %%v refused although far below the budget: %%v", c.name, c.prog.Constants, err)
		}
		if v.memory != c.created(out) || v.memory < 0 {
			t.Fatalf("VIOLATED: %%s with constants %%v created %%d elements but vm.memory = %%d", c.name, c.prog.Constants, c.created(out), v.memory)
		}
	}
	t.Logf("clause holds on these operands")
}
`, n)
		return runReplay(o, dir, "vm", src)
	}
	return "", false
}
