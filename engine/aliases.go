package main

import (
	"go/types"

	"golang.org/x/tools/go/ssa"
)

type ssaCallCommon = ssa.CallCommon
type typesStruct = types.Struct

func typesNewPointer(t types.Type) types.Type { return types.NewPointer(t) }
