package main

import (
	"fmt"
	"os"
	"sort"
	"strings"

	"golang.org/x/tools/go/ssa"
)

// sweep: development command. Runs every function of the named packages in
// mode nopanic with an empty contract and prints the safety obligations that
// do not discharge (to be triaged: needs-contract vs defect).
func init() {
	registerProp(&propDef{id: "T07", level: "proof", expl: "no-panic sweep (development view)", gen: func(w *World, res *CheckResult) {
		pk := os.Getenv("VERIF_SWEEP")
		if pk == "" {
			pk = "lexer."
		}
		var names []string
		for n := range w.Funcs {
			if strings.HasPrefix(n, pk) {
				names = append(names, n)
			}
		}
		sort.Strings(names)
		for _, n := range names {
			fn := w.Funcs[n]
			if len(fn.Blocks) == 0 {
				continue
			}
			ct := w.Contracts[n]
			c2 := &Contract{Func: n, Loops: map[string]*LoopSpec{}, Cases: map[string][]Clause{}}
			if ct != nil {
				cc := *ct
				c2 = &cc
			}
			c2.Mode = "nopanic"
			func() {
				defer func() {
					if r := recover(); r != nil {
						res.Obls = append(res.Obls, missingObl(n+"/sweep", fmt.Sprint("generator: ", r)))
					}
				}()
				e := NewExec(w)
				e.maxSteps = 200000
				e.SafeMode = func(f *ssa.Function) string { return "nopanic" }
				w.forceInline[n] = true
				e.VerifyFunc(fn, c2, func(st *State, args []*Value, env *SpecEnv) {
					if fn.Signature.Recv() != nil && len(args) > 0 && len(args[0].L) == 1 && args[0].L[0].Sort == SLoc {
						st.Assume(Not(Eq(args[0].One(), NilLoc)))
					}
				})
				delete(w.forceInline, n)
				for _, o := range e.obls {
					if strings.Contains(o.Name, "/safe:") {
						res.Obls = append(res.Obls, o)
					}
				}
			}()
		}
	}})
}
