package main

import "strings"

// c01Replay: a failed template / opcode value obligation is replayed as a
// differential battery on the real pipeline (expr.Compile + expr.Run, typed
// and untyped) against results computed natively in Go, over a small grid of
// environment values; the battery is filtered by the operator or node kind the
// obligation names. A battery that passes leaves no-failing-input-found.
func c01Replay(o *Obligation, dir string) (string, bool) {
	if strings.HasPrefix(o.Name, "vm.VM.Run/") || strings.HasPrefix(o.Name, "vm.equal/") {
		if p, real := vmReplay(o, dir); real {
			return p, real
		}
	}
	if reC18Tmpl.MatchString(o.Name) {
		return c18Replay(o, dir)
	}
	filter := ""
	if i := strings.Index(o.Name, "["); i >= 0 {
		if j := strings.LastIndex(o.Name, "]"); j > i {
			filter = o.Name[i+1 : j]
		}
	}
	kind := ""
	if strings.HasPrefix(o.Name, "tmpl:") {
		kind = strings.TrimPrefix(o.Name, "tmpl:")
		if i := strings.IndexAny(kind, "[/"); i >= 0 {
			kind = kind[:i]
		}
	}
	src := strings.ReplaceAll(c01ReplaySrc, "@OBL@", o.Name)
	src = strings.ReplaceAll(src, "@FILTER@", filter)
	src = strings.ReplaceAll(src, "@KIND@", kind)
	return runReplay(o, dir, "", src)
}

const c01ReplaySrc = `package expr_test

import (
	"fmt"
	"reflect"
	"regexp"
	"strings"
	"testing"

	"github.com/antonmedv/expr"
)

type verifMyInt int
type verifMyStr string

type verifEnv struct {
	A, B   int
	F, G   float64
	S, T   string
	P, Q   bool
	NI     verifMyInt
	NS     verifMyStr
	Arr    []int
	M      map[string]int
	Log    *[]string
	Tick   func(string, interface{}) interface{}
	Nested *verifEnv
}

type verifCase struct {
	kind, op, src string
	want          func(e *verifEnv) (interface{}, bool) // value, fails
	order         string                                // expected call log for this env ("" = not checked)
}

// replay of obligation @OBL@
func TestVerifReplay(t *testing.T) {
	filter, kind := "@FILTER@", "@KIND@"
	ints := []int{-3, 0, 1, 2, 7}
	strs := []string{"", "a", "ab", "ba"}
	bools := []bool{false, true}
	var cases []verifCase
	bin := func(op, src string, want func(e *verifEnv) (interface{}, bool)) {
		cases = append(cases, verifCase{kind: "BinaryNode", op: op, src: src, want: want})
	}
	ok := func(v interface{}) (interface{}, bool) { return v, false }
	bin("==", "A == B", func(e *verifEnv) (interface{}, bool) { return ok(e.A == e.B) })
	bin("==", "S == T", func(e *verifEnv) (interface{}, bool) { return ok(e.S == e.T) })
	bin("==", "NI == NI", func(e *verifEnv) (interface{}, bool) { return ok(true) })
	bin("==", "NS == NS", func(e *verifEnv) (interface{}, bool) { return ok(true) })
	bin("==", "A == F", func(e *verifEnv) (interface{}, bool) { return ok(float64(e.A) == e.F) })
	bin("!=", "A != B", func(e *verifEnv) (interface{}, bool) { return ok(e.A != e.B) })
	bin("<", "A < B", func(e *verifEnv) (interface{}, bool) { return ok(e.A < e.B) })
	bin(">", "A > B", func(e *verifEnv) (interface{}, bool) { return ok(e.A > e.B) })
	bin("<=", "A <= B", func(e *verifEnv) (interface{}, bool) { return ok(e.A <= e.B) })
	bin(">=", "A >= B", func(e *verifEnv) (interface{}, bool) { return ok(e.A >= e.B) })
	bin("<", "S < T", func(e *verifEnv) (interface{}, bool) { return ok(e.S < e.T) })
	bin("+", "A + B", func(e *verifEnv) (interface{}, bool) { return ok(e.A + e.B) })
	bin("+", "S + T", func(e *verifEnv) (interface{}, bool) { return ok(e.S + e.T) })
	bin("-", "A - B", func(e *verifEnv) (interface{}, bool) { return ok(e.A - e.B) })
	bin("*", "A * B", func(e *verifEnv) (interface{}, bool) { return ok(e.A * e.B) })
	bin("/", "F / G", func(e *verifEnv) (interface{}, bool) { return ok(e.F / e.G) })
	bin("%", "A % B", func(e *verifEnv) (interface{}, bool) {
		if e.B == 0 {
			return nil, true
		}
		return ok(e.A % e.B)
	})
	bin("and", "P and Q", func(e *verifEnv) (interface{}, bool) { return ok(e.P && e.Q) })
	bin("&&", "P && Q", func(e *verifEnv) (interface{}, bool) { return ok(e.P && e.Q) })
	bin("or", "P or Q", func(e *verifEnv) (interface{}, bool) { return ok(e.P || e.Q) })
	bin("||", "P || Q", func(e *verifEnv) (interface{}, bool) { return ok(e.P || e.Q) })
	bin("in", "A in Arr", func(e *verifEnv) (interface{}, bool) {
		for _, x := range e.Arr {
			if x == e.A {
				return ok(true)
			}
		}
		return ok(false)
	})
	bin("not in", "A not in Arr", func(e *verifEnv) (interface{}, bool) {
		for _, x := range e.Arr {
			if x == e.A {
				return ok(false)
			}
		}
		return ok(true)
	})
	bin("in", "S in M", func(e *verifEnv) (interface{}, bool) { _, in := e.M[e.S]; return ok(in) })
	bin("contains", "S contains T", func(e *verifEnv) (interface{}, bool) { return ok(strings.Contains(e.S, e.T)) })
	bin("startsWith", "S startsWith T", func(e *verifEnv) (interface{}, bool) { return ok(strings.HasPrefix(e.S, e.T)) })
	bin("endsWith", "S endsWith T", func(e *verifEnv) (interface{}, bool) { return ok(strings.HasSuffix(e.S, e.T)) })
	bin("..", "A..B", func(e *verifEnv) (interface{}, bool) {
		r := []int{}
		for x := e.A; x <= e.B; x++ {
			r = append(r, x)
		}
		return ok(r)
	})
	un := func(op, src string, want func(e *verifEnv) (interface{}, bool)) {
		cases = append(cases, verifCase{kind: "UnaryNode", op: op, src: src, want: want})
	}
	un("!", "!P", func(e *verifEnv) (interface{}, bool) { return ok(!e.P) })
	un("not", "not P", func(e *verifEnv) (interface{}, bool) { return ok(!e.P) })
	un("-", "-A", func(e *verifEnv) (interface{}, bool) { return ok(-e.A) })
	un("+", "+A", func(e *verifEnv) (interface{}, bool) { return ok(e.A) })
	other := func(kind, src string, want func(e *verifEnv) (interface{}, bool)) {
		cases = append(cases, verifCase{kind: kind, src: src, want: want})
	}
	other("ConditionalNode", "P ? A : B", func(e *verifEnv) (interface{}, bool) {
		if e.P {
			return ok(e.A)
		}
		return ok(e.B)
	})
	other("IndexNode", "Arr[A]", func(e *verifEnv) (interface{}, bool) {
		if e.A < 0 || e.A >= len(e.Arr) {
			return nil, true
		}
		return ok(e.Arr[e.A])
	})
	other("IndexNode", "M[S]", func(e *verifEnv) (interface{}, bool) { return ok(e.M[e.S]) })
	other("SliceNode", "Arr[1:2]", func(e *verifEnv) (interface{}, bool) { return ok(e.Arr[1:2]) })
	other("SliceNode", "Arr[1:]", func(e *verifEnv) (interface{}, bool) { return ok(e.Arr[1:]) })
	other("SliceNode", "Arr[:2]", func(e *verifEnv) (interface{}, bool) { return ok(e.Arr[:2]) })
	other("SliceNode", "Arr[:]", func(e *verifEnv) (interface{}, bool) { return ok(e.Arr[:]) })
	other("PropertyNode", "Nested.A", func(e *verifEnv) (interface{}, bool) { return ok(e.Nested.A) })
	other("PropertyNode", "Nested?.A", func(e *verifEnv) (interface{}, bool) { return ok(e.Nested.A) })
	other("IdentifierNode", "A", func(e *verifEnv) (interface{}, bool) { return ok(e.A) })
	other("MatchesNode", "S matches 'a.*'", func(e *verifEnv) (interface{}, bool) { return ok(regexp.MustCompile("a.*").MatchString(e.S)) })
	other("MatchesNode", "S matches T", func(e *verifEnv) (interface{}, bool) {
		m, err := regexp.MatchString(e.T, e.S)
		return m, err != nil
	})
	other("IntegerNode", "7", func(e *verifEnv) (interface{}, bool) { return ok(7) })
	other("FloatNode", "0.5", func(e *verifEnv) (interface{}, bool) { return ok(0.5) })
	other("StringNode", "'x'", func(e *verifEnv) (interface{}, bool) { return ok("x") })
	other("BoolNode", "true", func(e *verifEnv) (interface{}, bool) { return ok(true) })
	other("BoolNode", "false", func(e *verifEnv) (interface{}, bool) { return ok(false) })
	other("NilNode", "nil", func(e *verifEnv) (interface{}, bool) { return ok(nil) })
	// evaluation order and short-circuit: Tick(name, v) logs name and returns v
	ord := func(kind, op, src string, order func(e *verifEnv) string) {
		cases = append(cases, verifCase{kind: kind, op: op, src: src, want: nil, order: "?"})
		cases[len(cases)-1].want = func(e *verifEnv) (interface{}, bool) { return order(e), false }
	}
	for _, op := range []string{"==", "!=", "<", ">", "<=", ">=", "+", "-", "*", "/", "%", "**", ".."} {
		op := op
		ord("BinaryNode", op, "Tick('l', 5) "+op+" Tick('r', 3)", func(e *verifEnv) string { return "l,r" })
	}
	for _, op := range []string{"in", "not in"} {
		op := op
		ord("BinaryNode", op, "Tick('l', 5) "+op+" Tick('r', Arr)", func(e *verifEnv) string { return "l,r" })
	}
	for _, op := range []string{"contains", "startsWith", "endsWith"} {
		op := op
		ord("BinaryNode", op, "Tick('l', S) "+op+" Tick('r', T)", func(e *verifEnv) string { return "l,r" })
	}
	for _, op := range []string{"and", "&&"} {
		op := op
		ord("BinaryNode", op, "Tick('l', P) "+op+" Tick('r', Q)", func(e *verifEnv) string {
			if e.P {
				return "l,r"
			}
			return "l"
		})
	}
	for _, op := range []string{"or", "||"} {
		op := op
		ord("BinaryNode", op, "Tick('l', P) "+op+" Tick('r', Q)", func(e *verifEnv) string {
			if e.P {
				return "l"
			}
			return "l,r"
		})
	}
	ord("ConditionalNode", "", "Tick('c', P) ? Tick('a', 1) : Tick('b', 2)", func(e *verifEnv) string {
		if e.P {
			return "c,a"
		}
		return "c,b"
	})
	ord("IndexNode", "", "Tick('n', Arr)[Tick('i', 1)]", func(e *verifEnv) string { return "n,i" })
	ord("SliceNode", "", "Tick('n', Arr)[Tick('f', 1):Tick('t', 2)]", func(e *verifEnv) string { return "n,f,t" })
	ord("SliceNode", "", "Tick('n', Arr)[Tick('f', 1):]", func(e *verifEnv) string { return "n,f" })
	ord("SliceNode", "", "Tick('n', Arr)[:Tick('t', 2)]", func(e *verifEnv) string { return "n,t" })
	ord("PropertyNode", "", "Tick('n', Nested).A", func(e *verifEnv) string { return "n" })
	ord("MatchesNode", "", "Tick('l', S) matches Tick('r', 'a')", func(e *verifEnv) string { return "l,r" })
	ord("UnaryNode", "-", "-Tick('x', 1)", func(e *verifEnv) string { return "x" })
	ord("UnaryNode", "!", "!Tick('x', P)", func(e *verifEnv) string { return "x" })
	ord("UnaryNode", "not", "not Tick('x', P)", func(e *verifEnv) string { return "x" })

	ran := 0
	for _, c := range cases {
		if kind != "" && !strings.HasPrefix(kind, "compiler.") && c.kind != kind && kind != "ClosureNode" && kind != "ConstantNode" {
			continue
		}
		if c.kind == "BinaryNode" || c.kind == "UnaryNode" {
			if kind == c.kind && filter != "" && c.op != filter && strings.ReplaceAll(c.op, " ", "-") != filter {
				continue
			}
		}
		for _, a := range ints {
			for _, b := range ints {
				for _, s := range strs {
					for _, p := range bools {
						log := []string{}
						env := &verifEnv{A: a, B: b, F: float64(a) / 2, G: float64(b), S: s, T: strs[(a+b+6)%len(strs)], P: p, Q: (a+b)%2 == 0,
							NI: verifMyInt(a), NS: verifMyStr(s), Arr: []int{0, 1, 2}, M: map[string]int{"a": 1}, Log: &log, Nested: &verifEnv{A: b}}
						env.Tick = func(n string, v interface{}) interface{} { log = append(log, n); return v }
						want, wfail := c.want(env)
						for _, typed := range []bool{true, false} {
							log = log[:0]
							opts := []expr.Option{}
							if typed {
								opts = append(opts, expr.Env(&verifEnv{}))
							}
							prog, err := expr.Compile(c.src, opts...)
							if err != nil {
								t.Fatalf("VIOLATED: %q does not compile (typed=%v): %v", c.src, typed, err)
							}
							got, err := expr.Run(prog, env)
							ran++
							if c.order != "" {
								if err != nil {
									continue // a failing operation after the operands: order already logged
								}
								if strings.Join(log, ",") != want.(string) {
									t.Fatalf("VIOLATED: %q (typed=%v, A=%d B=%d S=%q P=%v): operands evaluated as [%s], the definition says [%s]", c.src, typed, a, b, s, p, strings.Join(log, ","), want)
								}
								continue
							}
							if wfail != (err != nil) {
								t.Fatalf("VIOLATED: %q (typed=%v, A=%d B=%d S=%q T=%q P=%v): error %v, the definition says fails=%v", c.src, typed, a, b, s, env.T, p, err, wfail)
							}
							if !wfail && !reflect.DeepEqual(got, want) && fmt.Sprint(got) != fmt.Sprint(want) {
								t.Fatalf("VIOLATED: %q (typed=%v, A=%d B=%d S=%q T=%q P=%v) = %v (%T), the definition gives %v (%T)", c.src, typed, a, b, s, env.T, p, got, got, want, want)
							}
						}
					}
				}
			}
		}
	}
	t.Logf("battery passed: %d runs agree with the reference (filter %q kind %q)", ran, filter, kind)
}
`
