package main

// Discharge: every VC is decided by SMT solvers. VCs are produced in depth
// first order of the path tree, so consecutive VCs share long assertion
// prefixes; phase 1 walks that tree with push/pop in long-lived z3-new and
// cvc5 processes (one pair per contiguous chunk); phase 2 re-runs what is
// still undecided (and every "sat", to obtain a model) one VC per process,
// racing all three solvers with the full timeout.

import (
	"bytes"
	"context"
	"fmt"
	"os"
	"os/exec"
	"path/filepath"
	"regexp"
	"sort"
	"strings"
	"sync"
	"time"
)

type vcJob struct {
	o       *Obligation
	idx     int
	vc      *VC
	status  string // "", unsat, sat, unknown
	solver  string
	seconds float64
	res     SolveResult
}

func Discharge(obls []*Obligation, tier Tier) {
	dump := os.Getenv("VERIF_DUMP")
	var only *regexp.Regexp
	if x := os.Getenv("VERIF_ONLY"); x != "" {
		only = regexp.MustCompile(x)
	}
	var jobs []*vcJob
	for _, o := range obls {
		if o.Backend != "" && o.Status != "" {
			continue
		}
		if only != nil && !only.MatchString(o.Name) {
			o.Backend, o.Status = "skipped", "discharged"
			continue
		}
		for i, vc := range o.VCs {
			if len(vc.Asserts) == 1 && vc.Asserts[0] == False {
				continue
			}
			if vc.Seq == 0 {
				vc.Seq = nextVCSeq()
			}
			jobs = append(jobs, &vcJob{o: o, idx: i, vc: vc})
		}
	}
	sort.SliceStable(jobs, func(i, j int) bool { return jobs[i].vc.Seq < jobs[j].vc.Seq })
	t0 := time.Now()
	perCheckMs := 3000
	if tier.Name == "thorough" {
		perCheckMs = 15000
	}
	// ---- phase 1: incremental chunks
	nchunks := 24
	if len(jobs) < 200 {
		nchunks = (len(jobs) + 7) / 8
	}
	if nchunks < 1 {
		nchunks = 1
	}
	type chunk struct {
		jobs    []*vcJob
		scripts map[string]string
	}
	var chunks []*chunk
	per := (len(jobs) + nchunks - 1) / nchunks
	for i := 0; i < len(jobs); i += per {
		end := i + per
		if end > len(jobs) {
			end = len(jobs)
		}
		c := &chunk{jobs: jobs[i:end], scripts: map[string]string{}}
		body := incrementalScript(c.jobs)
		c.scripts["z3-new"] = fmt.Sprintf("(set-option :timeout %d)\n", perCheckMs) + body
		c.scripts["cvc5"] = "(set-logic ALL)\n" + body
		chunks = append(chunks, c)
		if dump != "" {
			os.MkdirAll(dump, 0o755)
			os.WriteFile(filepath.Join(dump, fmt.Sprintf("chunk%03d.smt2", len(chunks))), []byte(c.scripts["z3-new"]), 0o644)
		}
	}
	type incRes struct {
		solver string
		ans    []string
		secs   []float64
	}
	var wg sync.WaitGroup
	sem := make(chan struct{}, 16)
	results := make([][]incRes, len(chunks))
	var mu sync.Mutex
	for ci, c := range chunks {
		for _, sv := range []string{"z3-new", "cvc5"} {
			wg.Add(1)
			sem <- struct{}{}
			go func(ci int, c *chunk, sv string) {
				defer wg.Done()
				defer func() { <-sem }()
				ans, secs := runIncremental(sv, c.scripts[sv], len(c.jobs), perCheckMs)
				mu.Lock()
				results[ci] = append(results[ci], incRes{sv, ans, secs})
				mu.Unlock()
			}(ci, c, sv)
		}
	}
	wg.Wait()
	for ci, c := range chunks {
		for k, j := range c.jobs {
			for _, r := range results[ci] {
				a := "unknown"
				if k < len(r.ans) {
					a = r.ans[k]
				}
				if a == "sat" {
					a = "unknown" // quantified facts were dropped: only unsat is conclusive
				}
				if a == "unsat" || a == "sat" {
					if j.status == "" || j.status == "unknown" {
						j.status, j.solver = a, r.solver
						if k < len(r.secs) {
							j.seconds = r.secs[k]
						}
					} else if j.status != a {
						j.status = "conflict"
					}
				}
			}
			if j.status == "" {
				j.status = "unknown"
			}
		}
	}
	if traceOn {
		n := map[string]int{}
		for _, j := range jobs {
			n[j.status]++
		}
		fmt.Fprintf(os.Stderr, "trace: phase 1 (%d VCs, %d chunks): %v in %.1fs\n", len(jobs), len(chunks), n, time.Since(t0).Seconds())
	}
	// ---- phase 2: individual runs for undecided / sat / conflicting / agreement
	var redo []*vcJob
	for _, j := range jobs {
		if j.status != "unsat" || tier.Agree {
			redo = append(redo, j)
		}
	}
	scripts := make([]string, len(redo))
	for i, j := range redo {
		scripts[i] = scriptFor(j.vc)
		if dump != "" {
			os.WriteFile(filepath.Join(dump, fmt.Sprintf("%s__%d.smt2", sanitize(j.o.Name), j.idx)), []byte(scripts[i]+"(check-sat)\n"), 0o644)
		}
	}
	for i, j := range redo {
		wg.Add(1)
		sem <- struct{}{}
		go func(i int, j *vcJob) {
			defer wg.Done()
			defer func() { <-sem }()
			if tier.Agree {
				rs := SolveAll(scripts[i], tier.TimeoutS)
				sawU, sawS := false, false
				var best SolveResult
				for _, x := range rs {
					if x.Seconds > best.Seconds {
						best.Seconds = x.Seconds
					}
					if x.Status == "unsat" {
						sawU = true
						best.Status, best.Solver, best.Output = x.Status, x.Solver, x.Output
					}
				}
				for _, x := range rs {
					if x.Status == "sat" {
						sawS = true
						best.Status, best.Solver, best.Output, best.Model = x.Status, x.Solver, x.Output, x.Model
					}
				}
				if sawU && sawS {
					best.Status = "unknown"
					best.Output = "SOLVER DISAGREEMENT\n" + best.Output
				}
				if !sawU && !sawS {
					best.Status, best.Solver = "unknown", "none"
					best.Output = rs[0].Output
				}
				j.res = best
			} else {
				j.res = Solve(scripts[i], tier.TimeoutS)
			}
			j.status, j.solver = j.res.Status, j.res.Solver
			j.seconds += j.res.Seconds
		}(i, j)
	}
	wg.Wait()
	// ---- phase 3 (quick tier): what is still undecided is retried with four times the budget and little
	// parallelism, so that a loaded machine does not turn a slow query into an alarm
	if !tier.Agree {
		var again []int
		for i, j := range redo {
			if j.status != "sat" && j.status != "unsat" {
				again = append(again, i)
			}
		}
		if len(again) > 0 && len(again) <= 64 {
			sem3 := make(chan struct{}, 4)
			var wg3 sync.WaitGroup
			for _, i := range again {
				wg3.Add(1)
				sem3 <- struct{}{}
				go func(i int) {
					defer wg3.Done()
					defer func() { <-sem3 }()
					j := redo[i]
					r := Solve(scripts[i], 4*tier.TimeoutS)
					if r.Status == "sat" || r.Status == "unsat" {
						j.res = r
						j.status, j.solver = r.Status, r.Solver
					}
					j.seconds += r.Seconds
				}(i)
			}
			wg3.Wait()
		}
	}
	if traceOn {
		n := map[string]int{}
		for _, j := range jobs {
			n[j.status]++
		}
		fmt.Fprintf(os.Stderr, "trace: phase 2 (%d re-run): %v total %.1fs\n", len(redo), n, time.Since(t0).Seconds())
	}
	// ---- aggregate
	for _, o := range obls {
		if o.Backend != "" && o.Status != "" {
			continue
		}
		o.Status = "discharged"
		o.Solver = "simplifier"
		if o.Expect == "sat" {
			o.Status = "unreachable"
		}
	}
	for _, j := range jobs {
		o := j.o
		o.Seconds += j.seconds
		if o.Expect == "sat" {
			switch {
			case j.status == "sat":
				o.Status, o.Solver = "reachable", j.solver
			case j.status != "unsat" && o.Status != "reachable":
				o.Status, o.Output, o.Solver = "undecided", j.res.Output, j.solver
			}
			continue
		}
		switch j.status {
		case "sat":
			if o.Status != "refuted" {
				o.Status = "refuted"
				o.Model, o.Output, o.FailVC, o.Solver = j.res.Model, j.res.Output, j.idx, j.solver
			}
		case "unsat":
			if o.Status == "discharged" {
				o.Solver = j.solver
			}
		default:
			if o.Status == "discharged" {
				o.Status = "undecided"
				o.Output, o.FailVC, o.Solver = j.res.Output, j.idx, j.solver
			}
		}
	}
}

// incrementalScript renders the jobs of one chunk as a push/pop walk.
func incrementalScript(jobs []*vcJob) string {
	// phase 1 works on the quantifier-free part of each path condition: a
	// goal that is unsat without the quantified facts is unsat with them; any
	// other answer is re-examined in phase 2 with the complete VC.
	qf := func(as []*Term) []*Term {
		var out []*Term
		for i, a := range as {
			if i < len(as)-1 && (a.Op == "forall" || a.Op == "exists") {
				continue
			}
			out = append(out, a)
		}
		return out
	}
	var all []*Term
	for _, j := range jobs {
		all = append(all, qf(j.vc.Asserts)...)
	}
	facts := typeCodeFactsFor(all)
	hdr, names := scriptHeader(Prelude(), append(append([]*Term(nil), facts...), all...))
	var sb strings.Builder
	sb.WriteString(hdr)
	for _, f := range facts {
		var b strings.Builder
		printTerm(&b, f, names)
		fmt.Fprintf(&sb, "(assert %s)\n", b.String())
	}
	var cur []*Term
	for k, j := range jobs {
		as := qf(j.vc.Asserts)
		c := 0
		for c < len(cur) && c < len(as) && cur[c] == as[c] {
			c++
		}
		if len(cur) > c {
			fmt.Fprintf(&sb, "(pop %d)\n", len(cur)-c)
		}
		for _, a := range as[c:] {
			var b strings.Builder
			printTerm(&b, a, names)
			fmt.Fprintf(&sb, "(push 1)\n(assert %s)\n", b.String())
		}
		cur = as
		fmt.Fprintf(&sb, "(echo \"@@vc %d\")\n(check-sat)\n", k)
	}
	sb.WriteString("(echo \"@@end\")\n")
	return sb.String()
}

func runIncremental(solver, script string, n int, perCheckMs int) ([]string, []float64) {
	fileMu.Lock()
	fileSeq++
	fn := filepath.Join(scratch(), fmt.Sprintf("inc%d_%s.smt2", fileSeq, solver))
	fileMu.Unlock()
	os.WriteFile(fn, []byte(script), 0o644)
	defer os.Remove(fn)
	var argv []string
	switch solver {
	case "z3-new":
		argv = []string{"z3-new", fn}
	case "z3":
		argv = []string{"z3", fn}
	default:
		argv = []string{"cvc5", "--incremental", fmt.Sprintf("--tlimit-per=%d", perCheckMs), fn}
	}
	budget := time.Duration(n*perCheckMs/1000/4+60) * time.Second
	ctx, cancel := context.WithTimeout(context.Background(), budget)
	defer cancel()
	cmd := exec.CommandContext(ctx, argv[0], argv[1:]...)
	var out bytes.Buffer
	cmd.Stdout = &out
	cmd.Stderr = &out
	t0 := time.Now()
	cmd.Run()
	total := time.Since(t0).Seconds()
	ans := make([]string, n)
	secs := make([]float64, n)
	for i := range ans {
		ans[i] = "unknown"
	}
	cur := -1
	got := 0
	for _, line := range strings.Split(out.String(), "\n") {
		line = strings.TrimSpace(strings.Trim(strings.TrimSpace(line), "\""))
		if strings.HasPrefix(line, "@@vc ") {
			fmt.Sscanf(line, "@@vc %d", &cur)
			continue
		}
		if cur >= 0 && cur < n && (line == "sat" || line == "unsat" || line == "unknown") {
			ans[cur] = line
			got++
			cur = -1
		}
	}
	if got > 0 {
		for i := range secs {
			secs[i] = total / float64(got)
		}
	}
	return ans, secs
}
