package main

import (
	"go/token"

	"golang.org/x/tools/go/ssa"
)

var globalImmutableMemo = map[*ssa.Global]bool{}

// bypassImmutable is switched off while a package initialiser itself is verified.
var bypassImmutable = true

// globalImmutable: an unexported package-level variable that no function of the
// module other than its package initialiser stores to, and whose address is
// only used for loads and stores.
func (w *World) globalImmutable(g *ssa.Global) bool {
	if v, ok := globalImmutableMemo[g]; ok {
		return v
	}
	res := !token.IsExported(g.Name()) && g.Pkg != nil
	if res {
		for _, fn := range w.allFuncs() {
			isInit := fn.Pkg == g.Pkg && (fn.Name() == "init" || fn.Synthetic != "" && fn.Name() == "init")
			for _, b := range fn.Blocks {
				for _, in := range b.Instrs {
					for _, op := range in.Operands(nil) {
						if *op != ssa.Value(g) {
							continue
						}
						switch x := in.(type) {
						case *ssa.UnOp:
						case *ssa.Store:
							if x.Addr == ssa.Value(g) && isInit {
								continue
							}
							res = false
						case *ssa.DebugRef:
						default:
							res = false
						}
					}
				}
			}
		}
	}
	globalImmutableMemo[g] = res
	return res
}

var allFuncsMemo []*ssa.Function

func (w *World) allFuncs() []*ssa.Function {
	if allFuncsMemo != nil {
		return allFuncsMemo
	}
	seen := map[*ssa.Function]bool{}
	var add func(f *ssa.Function)
	add = func(f *ssa.Function) {
		if f == nil || seen[f] {
			return
		}
		seen[f] = true
		allFuncsMemo = append(allFuncsMemo, f)
		for _, a := range f.AnonFuncs {
			add(a)
		}
	}
	for _, sp := range w.SSAPkgs {
		for _, m := range sp.Members {
			if f, ok := m.(*ssa.Function); ok {
				add(f)
			}
		}
	}
	for _, f := range w.Funcs {
		add(f)
	}
	return allFuncsMemo
}

// initFacts assumes, at the entry of a function under verification, the
// ensures clauses of its package initialiser's contract ("<pkg>.init"); those
// clauses are themselves verified against the synthetic init function.
func (e *Exec) initFacts(st *State, fn *ssa.Function, env *SpecEnv) {
	p := fn.Package()
	for f := fn; p == nil && f != nil; f = f.Parent() {
		p = f.Package()
	}
	if p == nil {
		return
	}
	for short, sp := range e.W.SSAPkgs {
		if sp != p {
			continue
		}
		name := short
		if i := lastSlash(short); i >= 0 {
			name = short[i+1:]
		}
		if short == "" {
			name = "expr"
		}
		if ct := e.W.Contracts[name+".init"]; ct != nil {
			for _, en := range ct.Ensures {
				st.Assume(e.evalBool(en.Expr, env))
			}
		}
	}
}

func lastSlash(s string) int {
	for i := len(s) - 1; i >= 0; i-- {
		if s[i] == '/' {
			return i
		}
	}
	return -1
}
