package main

// C09 — Compile and Run are pure and deterministic.
//  * Run never modifies program / environment: the write-frame obligations of
//    VM.Run and of the vm functions it calls (shared with C08).
//  * Compile is a function of (source, options): effect obligations over the
//    static call closure of expr.Compile (Layer F): no goroutines, no select,
//    no clock / random / OS input, and every iteration over a map is one of
//    the declared order-insensitive sites (checked for shape).
//  * constants are laid out in emission order: contract of makeConstant.

import (
	"fmt"
	"go/types"
	"sort"
	"strings"

	"golang.org/x/tools/go/ssa"
)

// staticClosure: module functions reachable from root through static calls and closures.
func staticClosure(w *World, roots ...*ssa.Function) []*ssa.Function {
	seen := map[*ssa.Function]bool{}
	var out []*ssa.Function
	var visit func(f *ssa.Function)
	e := &Exec{W: w}
	visit = func(f *ssa.Function) {
		if f == nil || seen[f] || len(f.Blocks) == 0 || !e.inModule(f) {
			return
		}
		seen[f] = true
		out = append(out, f)
		for _, b := range f.Blocks {
			for _, in := range b.Instrs {
				switch in := in.(type) {
				case ssa.CallInstruction:
					cc := in.Common()
					if c, ok := cc.Value.(*ssa.Function); ok {
						visit(c)
					}
					if mc, ok := cc.Value.(*ssa.MakeClosure); ok {
						visit(mc.Fn.(*ssa.Function))
					}
					if cc.IsInvoke() {
						// interface call: every module method of that name implementing it
						for _, g := range w.Funcs {
							if g.Signature.Recv() != nil && g.Name() == cc.Method.Name() {
								if types.Implements(g.Signature.Recv().Type(), cc.Value.Type().Underlying().(*types.Interface)) {
									visit(g)
								}
							}
						}
					}
					for _, a := range cc.Args {
						if mc, ok := a.(*ssa.MakeClosure); ok {
							visit(mc.Fn.(*ssa.Function))
						}
						if fn, ok := a.(*ssa.Function); ok {
							visit(fn)
						}
					}
				case *ssa.MakeClosure:
					visit(in.Fn.(*ssa.Function))
				}
			}
		}
	}
	for _, r := range roots {
		visit(r)
	}
	sort.Slice(out, func(i, j int) bool { return shortName(out[i]) < shortName(out[j]) })
	return out
}

func genC09(w *World, res *CheckResult) {
	// Run side
	g := genRun(w)
	res.Obls = append(res.Obls, selectObls(g.obls, `/frame$`, `/frame-at-panic$`, `/env-call:args-not-owned$`, `^vm\.VM\.Run/loop:0/entry\[`, `^vm\.VM\.Run/fields-reset`, `inv-(init|pres)\[(stack-own|scopes-own|scopes-fresh|prog)\]`, `^vm\.VM\.Run/pre-sat$`, `inv-sat$`)...)
	res.Obls = append(res.Obls, genPure(w)...)
	genBindFrame(w, res)
	res.Assumptions = append(res.Assumptions, g.notes...)
	res.Functions = append(res.Functions, g.funcs...)
	// Compile side: effects
	root := w.Func("expr.Compile")
	if root == nil {
		res.Obls = append(res.Obls, missingObl("expr.Compile/exists", "function not found"))
		return
	}
	fns := libraryFuncs(w) // every function of the library packages (options such as expr.Operator run before Compile)
	_ = root
	// package-level state: no function that Compile or Run can reach keeps state in a package-level
	// variable (a cache, a counter, a pool): such a variable is only ever loaded, and nothing outside
	// its package initialiser stores to it
	{
		roots := []*ssa.Function{root}
		for _, n := range []string{"expr.Run", "expr.Eval", "vm.Run", "vm.VM.Run", "vm.FetchFn", "vm.fetch", "vm.slice", "vm.in", "vm.length"} {
			if f := w.Func(n); f != nil {
				roots = append(roots, f)
			}
		}
		var badg []string
		_ = roots
		// every function of the library packages (options such as expr.Env run before Compile and are not in
		// its static call closure); generators and documentation tools are not part of the library
		var all []*ssa.Function
		for _, f := range w.allFuncs() {
			p := f.Pkg
			for pf := f; p == nil && pf != nil; pf = pf.Parent() {
				p = pf.Pkg
			}
			if p == nil || !strings.HasPrefix(p.Pkg.Path(), modulePath) || len(f.Blocks) == 0 {
				continue
			}
			rel := strings.TrimPrefix(p.Pkg.Path(), modulePath)
			if strings.HasPrefix(rel, "/vm/generate") || strings.HasPrefix(rel, "/docgen") || strings.HasPrefix(rel, "/docs") || strings.HasPrefix(rel, "/cmd") {
				continue
			}
			all = append(all, f)
		}
		for _, f := range all {
			if f.Name() == "init" {
				continue
			}
			for _, b := range f.Blocks {
				for _, in := range b.Instrs {
					for _, op := range in.Operands(nil) {
						g, ok := (*op).(*ssa.Global)
						if !ok || g.Pkg == nil || !strings.HasPrefix(g.Pkg.Pkg.Path(), modulePath) {
							continue
						}
						if why := globalUseIsState(w, in, g); why != "" {
							badg = append(badg, shortName(f)+": "+why)
						}
					}
				}
			}
		}
		og := &Obligation{Name: "module/effects:no-package-level-state", Kind: "frame", Expect: "unsat", Backend: "effects", Func: "expr.Compile, vm.VM.Run", Meta: map[string]string{}}
		if len(badg) == 0 {
			og.Status = "discharged"
			og.Output = fmt.Sprintf("%d functions of the library packages: package-level variables are only loaded, and only their package initialiser stores to them", len(all))
		} else {
			og.Status = "undecided"
			sort.Strings(badg)
			og.Output = strings.Join(badg, "; ")
		}
		res.Obls = append(res.Obls, og)
		// closures: a function literal that outlives the call that created it (returned, stored, converted or
		// passed on: options, patch callbacks) and writes a variable it captured keeps state between its calls,
		// shared by every Compile or run that uses the same function value
		var badc []string
		nclos := 0
		for _, f := range all {
			if f.Parent() == nil || len(f.FreeVars) == 0 {
				continue
			}
			nclos++
			if !closureEscapes(f) {
				continue
			}
			for _, fv := range f.FreeVars {
				if why := capturedWrite(fv); why != "" {
					badc = append(badc, shortName(f)+": "+why)
				}
			}
		}
		oc := &Obligation{Name: "module/effects:no-state-captured-by-escaping-closure", Kind: "frame", Expect: "unsat", Backend: "effects", Func: "expr.Compile, vm.VM.Run", Meta: map[string]string{}}
		if len(badc) == 0 {
			oc.Status = "discharged"
			oc.Output = fmt.Sprintf("%d function literals with captured variables in the library packages: those that outlive their creating call only read what they captured", nclos)
		} else {
			oc.Status = "undecided"
			sort.Strings(badc)
			oc.Output = strings.Join(badc, "; ")
		}
		res.Obls = append(res.Obls, oc)
	}
	declared := map[string]string{}
	for name, ct := range w.Contracts {
		for _, c := range ct.Cases["map-range"] {
			declared[name] = c.Expr
		}
	}
	found := map[string]bool{}
	var bad []string
	for _, f := range fns {
		res.Functions = append(res.Functions, shortName(f))
		for _, b := range f.Blocks {
			for _, in := range b.Instrs {
				switch in := in.(type) {
				case *ssa.Go:
					bad = append(bad, shortName(f)+": go statement")
				case *ssa.Select:
					bad = append(bad, shortName(f)+": select")
				case *ssa.Range:
					if _, ok := in.X.Type().Underlying().(*types.Map); ok {
						found[shortName(f)] = true
						if _, ok := declared[shortName(f)]; !ok {
							bad = append(bad, shortName(f)+": iteration over a map that is not declared order-insensitive")
						} else if why := mapRangeShape(f, in); why != "" {
							bad = append(bad, shortName(f)+": "+why)
						}
					}
				case ssa.CallInstruction:
					if c, ok := in.Common().Value.(*ssa.Function); ok && c.Pkg != nil {
						switch c.Pkg.Pkg.Path() {
						case "time", "math/rand", "os", "crypto/rand", "runtime", "unsafe", "sync/atomic":
							bad = append(bad, shortName(f)+": call into "+c.Pkg.Pkg.Path())
						}
						if c.Pkg.Pkg.Path() == "reflect" && (c.Name() == "MapKeys" || c.Name() == "MapRange") {
							if _, ok := declared[shortName(f)]; !ok {
								bad = append(bad, shortName(f)+": reflect map iteration not declared order-insensitive")
							}
							found[shortName(f)] = true
						}
					}
					if c, ok := in.Common().Value.(*ssa.Function); ok && c.Pkg == nil && c.Signature.Recv() != nil {
						if strings.Contains(c.String(), "reflect.Value).MapKeys") || strings.Contains(c.String(), "reflect.Value).MapRange") {
							if _, ok := declared[shortName(f)]; !ok {
								bad = append(bad, shortName(f)+": reflect map iteration not declared order-insensitive")
							}
							found[shortName(f)] = true
						}
					}
				case *ssa.Convert:
					if b, ok := in.X.Type().Underlying().(*types.Basic); ok && b.Kind() == types.UnsafePointer {
						bad = append(bad, shortName(f)+": pointer to integer conversion")
					}
				}
			}
		}
	}
	o := &Obligation{Name: "expr.Compile/effects:deterministic", Kind: "frame", Expect: "unsat", Backend: "effects", Func: "expr.Compile", Meta: map[string]string{}}
	if len(bad) == 0 {
		o.Status = "discharged"
		var ds []string
		for k := range found {
			ds = append(ds, k)
		}
		sort.Strings(ds)
		o.Output = fmt.Sprintf("%d functions in the static call closure; map iterations only at the declared order-insensitive sites %v", len(fns), ds)
	} else {
		o.Status = "undecided"
		sort.Strings(bad)
		o.Output = strings.Join(bad, "; ")
	}
	res.Obls = append(res.Obls, o)
	for name := range declared {
		oo := &Obligation{Name: name + "/effects:map-range-declared", Kind: "frame", Expect: "unsat", Backend: "effects", Func: name, Meta: map[string]string{}, Status: "discharged"}
		if w.Func(name) == nil {
			oo.Status, oo.Output = "missing", "declared function not found"
		} else {
			oo.Output = "declared order-insensitive: " + declared[name]
		}
		res.Obls = append(res.Obls, oo)
	}
	// constants laid out in emission order
	if fn, ct := w.Func("compiler.compiler.makeConstant"), w.Contracts["compiler.compiler.makeConstant"]; fn != nil && ct != nil {
		e := NewExec(w)
		w.forceInline["compiler.compiler.makeConstant"] = true
		e.VerifyFunc(fn, ct, nil)
		delete(w.forceInline, "compiler.compiler.makeConstant")
		res.Obls = append(res.Obls, e.obls...)
		res.Assumptions = append(res.Assumptions, e.Notes()...)
		res.Functions = append(res.Functions, "compiler.compiler.makeConstant")
	} else {
		res.Obls = append(res.Obls, missingObl("compiler.compiler.makeConstant/exists", "function or contract missing"))
	}
	res.Assumptions = append(res.Assumptions,
		"the emission templates (C05) contain no map iteration, so the bytecode is a function of the checked tree; the tree is a function of the source (parser is deterministic: in the call closure checked here)",
		"user-supplied visitors, operator functions and ConstExpr functions are the caller's; reflect, regexp, strconv, fmt are deterministic")
}

// mapRangeShape: the body of a declared map iteration must not build
// order-dependent results: no append, no slice/element stores, no calls other
// than into maps / fmt / the recursive table builders.
func mapRangeShape(f *ssa.Function, r *ssa.Range) string {
	// find the loop whose header contains the Next of this range
	var hdr *ssa.BasicBlock
	for _, b := range f.Blocks {
		for _, in := range b.Instrs {
			if n, ok := in.(*ssa.Next); ok && n.Iter == ssa.Value(r) {
				hdr = b
			}
		}
	}
	if hdr == nil {
		return "map range without a loop"
	}
	for b := range loopBody(hdr) {
		for _, in := range b.Instrs {
			switch in := in.(type) {
			case *ssa.Call:
				if bi, ok := in.Call.Value.(*ssa.Builtin); ok && bi.Name() == "append" {
					return "a declared order-insensitive map iteration appends to a slice"
				}
			case *ssa.Store:
				if _, ok := in.Addr.(*ssa.IndexAddr); ok {
					return "a declared order-insensitive map iteration stores into a slice element"
				}
			}
		}
	}
	return ""
}

func init() {
	registerProp(&propDef{id: "C09", level: "proof", gen: genC09, replay: vmReplay,
		expl: "Run: write frame of VM.Run and of every vm function it calls (nothing that existed before the run is written: program, constants, environment). Compile: effect obligations over the static call closure of expr.Compile (no goroutines, select, clock, random, OS, pointer-to-integer; map iterations only at declared order-insensitive sites with checked shape); makeConstant lays constants out in emission order"})
}


const modulePath = "github.com/antonmedv/expr"

// globalUseIsState: "" if the instruction only reads the package-level
// variable g (a load, or an element/field address that is only loaded from)
// and g is never stored to outside its initialiser; otherwise the reason.
// closureEscapes: some MakeClosure of f outlives the call of its parent that created it: it is returned,
// stored in the heap, converted, sent, started as a goroutine or handed to code outside the module. A
// closure that is only called or deferred, kept in a local variable, or passed to a module function that
// itself only calls it, does not.
func closureEscapes(f *ssa.Function) bool {
	for _, b := range f.Parent().Blocks {
		for _, in := range b.Instrs {
			if mc, ok := in.(*ssa.MakeClosure); ok && mc.Fn == ssa.Value(f) {
				if funcValueEscapes(mc, map[ssa.Value]bool{}, 0) {
					return true
				}
			}
		}
	}
	return false
}

func funcValueEscapes(v ssa.Value, seen map[ssa.Value]bool, depth int) bool {
	if seen[v] {
		return false
	}
	seen[v] = true
	if depth > 8 || v.Referrers() == nil {
		return true
	}
	for _, r := range *v.Referrers() {
		switch y := r.(type) {
		case *ssa.DebugRef:
		case ssa.CallInstruction:
			if _, isGo := y.(*ssa.Go); isGo {
				return true
			}
			c := y.Common()
			if c.Value == v && !c.IsInvoke() {
				// called (or deferred) here; as an argument of the same call it is checked below
			}
			for k, a := range c.Args {
				if a != v {
					continue
				}
				callee, ok := c.Value.(*ssa.Function)
				if !ok || len(callee.Blocks) == 0 || k >= len(callee.Params) || callee.Signature.Variadic() && k >= len(callee.Params)-1 {
					return true
				}
				if funcValueEscapes(callee.Params[k], seen, depth+1) {
					return true
				}
			}
		case *ssa.Store:
			if y.Val != v {
				continue
			}
			if cellEscapes(y.Addr, seen, depth+1) {
				return true
			}
		case *ssa.Phi:
			if funcValueEscapes(y, seen, depth+1) {
				return true
			}
		case *ssa.ChangeType:
			if funcValueEscapes(y, seen, depth+1) {
				return true
			}
		default:
			return true
		}
	}
	return false
}

// cellEscapes: the local variable cell (an Alloc, or the FreeVar through which a nested function literal
// sees it) lets the function value stored in it escape.
func cellEscapes(addr ssa.Value, seen map[ssa.Value]bool, depth int) bool {
	if seen[addr] {
		return false
	}
	seen[addr] = true
	switch addr.(type) {
	case *ssa.Alloc, *ssa.FreeVar:
	default:
		return true
	}
	if depth > 8 || addr.Referrers() == nil {
		return true
	}
	for _, r := range *addr.Referrers() {
		switch y := r.(type) {
		case *ssa.DebugRef:
		case *ssa.Store:
			if y.Val == addr {
				return true
			}
		case *ssa.UnOp:
			if funcValueEscapes(y, seen, depth+1) {
				return true
			}
		case *ssa.MakeClosure:
			fn := y.Fn.(*ssa.Function)
			if funcValueEscapes(y, seen, depth+1) {
				return true // captured by a function literal that itself outlives the call
			}
			for k, bnd := range y.Bindings {
				if bnd == addr && k < len(fn.FreeVars) {
					if cellEscapes(fn.FreeVars[k], seen, depth+1) {
						return true
					}
				}
			}
		default:
			return true
		}
	}
	return false
}

// capturedWrite: the closure stores to the captured variable fv, or writes through the map, slice or
// pointer it holds.
func capturedWrite(fv *ssa.FreeVar) string {
	if fv.Referrers() == nil {
		return ""
	}
	for _, r := range *fv.Referrers() {
		switch y := r.(type) {
		case *ssa.Store:
			if y.Addr == ssa.Value(fv) {
				return "assigns the captured variable " + fv.Name()
			}
		case *ssa.FieldAddr, *ssa.IndexAddr:
			v := y.(ssa.Value)
			if v.Referrers() != nil {
				for _, rr := range *v.Referrers() {
					if st, ok := rr.(*ssa.Store); ok && st.Addr == v {
						return "assigns a component of the captured variable " + fv.Name()
					}
				}
			}
		case *ssa.UnOp:
			if y.Referrers() == nil {
				continue
			}
			for _, rr := range *y.Referrers() {
				switch z := rr.(type) {
				case *ssa.MapUpdate:
					if z.Map == ssa.Value(y) {
						return "updates the captured map " + fv.Name()
					}
				case *ssa.IndexAddr, *ssa.FieldAddr:
					v := z.(ssa.Value)
					if v.Referrers() != nil {
						for _, r3 := range *v.Referrers() {
							if st, ok := r3.(*ssa.Store); ok && st.Addr == v {
								return "writes through the captured variable " + fv.Name()
							}
						}
					}
				}
			}
		}
	}
	return ""
}

func globalUseIsState(w *World, in ssa.Instruction, g *ssa.Global) string {
	onlyLoads := func(v ssa.Value) bool {
		for _, r := range *v.Referrers() {
			switch r.(type) {
			case *ssa.UnOp, *ssa.DebugRef:
			default:
				return false
			}
		}
		return true
	}
	switch x := in.(type) {
	case *ssa.DebugRef:
		return ""
	case *ssa.UnOp:
		if !w.globalStoredOnlyByInit(g) {
			return "reads " + g.Pkg.Pkg.Name() + "." + g.Name() + ", which is assigned outside its package initialiser"
		}
		// the value loaded from the variable (a map, slice or pointer) must not be written through
		if x.Referrers() != nil {
			for _, r := range *x.Referrers() {
				switch y := r.(type) {
				case *ssa.MapUpdate:
					if y.Map == ssa.Value(x) {
						return "updates the package-level map " + g.Pkg.Pkg.Name() + "." + g.Name()
					}
				case *ssa.IndexAddr:
					if y.X == ssa.Value(x) && y.Referrers() != nil {
						for _, rr := range *y.Referrers() {
							if st, ok := rr.(*ssa.Store); ok && st.Addr == ssa.Value(y) {
								return "writes an element of the package-level slice " + g.Pkg.Pkg.Name() + "." + g.Name()
							}
						}
					}
				case *ssa.FieldAddr:
					if y.X == ssa.Value(x) && y.Referrers() != nil {
						for _, rr := range *y.Referrers() {
							if st, ok := rr.(*ssa.Store); ok && st.Addr == ssa.Value(y) {
								return "writes a field of the object the package-level variable " + g.Pkg.Pkg.Name() + "." + g.Name() + " points to"
							}
						}
					}
				}
				// a mutable object (map, slice, pointer, channel) held by a package-level variable must not be handed
				// out of the library code that reads it: whoever receives it shares it with every other run
				switch x.Type().Underlying().(type) {
				case *types.Map, *types.Slice, *types.Pointer, *types.Chan:
					out := ""
					switch y := r.(type) {
					case *ssa.MakeInterface:
						out = "converts it to an interface value"
					case *ssa.Return:
						out = "returns it"
					case *ssa.Store:
						if y.Val == ssa.Value(x) {
							out = "stores it"
						}
					case *ssa.MapUpdate:
						if y.Value == ssa.Value(x) {
							out = "stores it in a map"
						}
					case *ssa.Send:
						out = "sends it"
					case *ssa.MakeClosure:
						out = "captures it in a closure"
					}
					if out != "" {
						return "hands out the mutable object held by the package-level variable " + g.Pkg.Pkg.Name() + "." + g.Name() + " (" + out + ")"
					}
				}
			}
		}
		return ""
	case *ssa.FieldAddr:
		if onlyLoads(x) && w.globalStoredOnlyByInit(g) {
			return ""
		}
	case *ssa.IndexAddr:
		if onlyLoads(x) && w.globalStoredOnlyByInit(g) {
			return ""
		}
	case *ssa.Store:
		return "assigns the package-level variable " + g.Pkg.Pkg.Name() + "." + g.Name()
	}
	return "uses the package-level variable " + g.Pkg.Pkg.Name() + "." + g.Name() + " as mutable state (its address escapes to " + strings.SplitN(in.String(), "(", 2)[0] + ")"
}

var storedOnlyByInitMemo = map[*ssa.Global]bool{}

// globalStoredOnlyByInit: no function other than the package initialiser has a
// store whose address is g or derived from g, and g's address is not passed on.
func (w *World) globalStoredOnlyByInit(g *ssa.Global) bool {
	if v, ok := storedOnlyByInitMemo[g]; ok {
		return v
	}
	res := true
	for _, fn := range w.allFuncs() {
		if fn.Pkg == g.Pkg && fn.Name() == "init" {
			continue
		}
		for _, b := range fn.Blocks {
			for _, in := range b.Instrs {
				for _, op := range in.Operands(nil) {
					if *op != ssa.Value(g) {
						continue
					}
					switch x := in.(type) {
					case *ssa.UnOp, *ssa.DebugRef:
					case *ssa.FieldAddr:
						for _, r := range *x.Referrers() {
							if _, ok := r.(*ssa.UnOp); !ok {
								if _, ok := r.(*ssa.DebugRef); !ok {
									res = false
								}
							}
						}
					case *ssa.IndexAddr:
						for _, r := range *x.Referrers() {
							if _, ok := r.(*ssa.UnOp); !ok {
								if _, ok := r.(*ssa.DebugRef); !ok {
									res = false
								}
							}
						}
					default:
						res = false
					}
				}
			}
		}
	}
	storedOnlyByInitMemo[g] = res
	return res
}

// genBindFrame: binding an error to the program's source (done by VM.Run's
// recover handler on the shared Program.Source, and by Check) reads the source
// and writes only the error value: the frame of file.Error.Bind, verified on
// its body with Snippet / findLineOffset inlined.
func genBindFrame(w *World, res *CheckResult) {
	n := "file.Error.Bind"
	fn, ct := w.Func(n), w.Contracts[n]
	if fn == nil || ct == nil {
		res.Obls = append(res.Obls, missingObl(n+"/exists", "function or contract missing"))
		return
	}
	e := NewExec(w)
	saved := map[string]bool{}
	for _, x := range []string{n, "file.Source.Snippet", "file.Source.findLineOffset", "file.Source.updateOffsets"} {
		saved[x] = w.forceInline[x]
		w.forceInline[x] = true
	}
	func() {
		defer func() {
			if r := recover(); r != nil {
				// the contract of Bind / updateOffsets no longer fits the code: the frame is not established
				o := missingObl(n+"/frame:assigns", fmt.Sprint("the contracts of file.Error.Bind and its callees could not be evaluated on the current code: ", r))
				o.Status = "undecided"
				res.Obls = append(res.Obls, o)
			}
		}()
		e.VerifyFunc(fn, ct, nil)
	}()
	for x, v := range saved {
		if v {
			w.forceInline[x] = true
		} else {
			delete(w.forceInline, x)
		}
	}
	for _, o := range e.obls {
		if strings.Contains(o.Name, "/frame") || strings.HasSuffix(o.Name, "/pre-sat") || strings.HasSuffix(o.Name, "/cover:returns") || strings.Contains(o.Name, "/post[") {
			res.Obls = append(res.Obls, o)
		}
	}
	res.Assumptions = append(res.Assumptions, e.Notes()...)
	res.Functions = append(res.Functions, n, "file.Source.Snippet", "file.Source.findLineOffset")
}


// libraryFuncs: all functions (closures included) of the library packages; generators, docs and commands excluded.
func libraryFuncs(w *World) []*ssa.Function {
	var all []*ssa.Function
	for _, f := range w.allFuncs() {
		p := f.Pkg
		for pf := f; p == nil && pf != nil; pf = pf.Parent() {
			p = pf.Pkg
		}
		if p == nil || !strings.HasPrefix(p.Pkg.Path(), modulePath) || len(f.Blocks) == 0 {
			continue
		}
		rel := strings.TrimPrefix(p.Pkg.Path(), modulePath)
		if strings.HasPrefix(rel, "/vm/generate") || strings.HasPrefix(rel, "/docgen") || strings.HasPrefix(rel, "/docs") || strings.HasPrefix(rel, "/cmd") {
			continue
		}
		all = append(all, f)
	}
	sort.Slice(all, func(i, j int) bool { return shortName(all[i]) < shortName(all[j]) })
	return all
}
