package main

import (
	"regexp"
	"strings"
)

var reC18Tmpl = regexp.MustCompile(`^(tmpl:BuiltinNode\[[a-z]+\]/sem-|tmpl:PointerNode/value$|lemma:)`)

// C18 — collection builtins satisfy their defining identities (fragment):
// each loop scheme of the real compiler, executed on the abstract VM over the
// opcode clauses proved on VM.Run, maintains the semantic invariant written in
// BuiltinNode's contract and leaves the builtin's defining formula; the
// identities are lemmas over those formulas; `#` is the innermost element.
func genC18(w *World, res *CheckResult) {
	obls, notes := templateObls(w, func(n string) bool { return reC18Tmpl.MatchString(n) })
	res.Obls = append(res.Obls, obls...)
	res.Assumptions = append(res.Assumptions, notes...)
	g := genRun(w)
	ops := `(OpBegin|OpEnd|OpStore|OpLoad|OpInc|OpArray|OpLess|OpEqual|OpIndex|OpLen|OpNot|OpTrue|OpFalse|OpPush|OpPop|OpJump|OpJumpBackward|OpJumpIfTrue|OpJumpIfFalse|OpRange)`
	res.Obls = append(res.Obls, selectObls(g.obls, `\[`+ops+`\]/post\[(value|operand-type|below|stack|scopes|ip|taken|not-taken|length|elements)\]$`, `loop:OpArray/inv-(init|pres)`, `^vm\.VM\.Run/pre-sat$`, `\[`+ops+`\]/cover$`)...)
	res.Assumptions = append(res.Assumptions, g.notes...)
	res.Functions = append(res.Functions, g.funcs...)
	res.Obls = append(res.Obls, selectObls(genPureAll(w), `^vm\.(equal|less)/`)...)
	genCheckerPointer(w, res)
	// membership in a literal integer range is rewritten to exactly the two-sided comparison, for int operands only (cells of C02)
	{
		tmp := &CheckResult{}
		genInRange(w, tmp)
		res.Obls = append(res.Obls, selectObls(tmp.Obls, `^optimizer\.inRange\[.*\]/post:(shape|int-guard)$`)...)
		res.Functions = append(res.Functions, "optimizer.inRange.Exit")
	}
	// ranges: makeRange builds exactly min..max
	tmp := &CheckResult{}
	if pd := propByID("T00"); pd != nil {
		pd.gen(w, tmp)
		res.Obls = append(res.Obls, tmp.Obls...)
	}
	res.Functions = append(res.Functions, "compiler.compiler.BuiltinNode", "compiler.compiler.emitLoop", "compiler.compiler.emitCond", "compiler.compiler.PointerNode", "vm.less", "vm.equal", "vm.makeRange")
	res.Assumptions = append(res.Assumptions,
		"induction hypothesis (contract of compile): the closure body, a child segment, pushes f(i) — a function of the closure node and of the innermost scope's array and i — and changes nothing else on the stack or in the scopes; a nested builtin inside it opens and closes its own scope (C05 scopes-balance), so the hypothesis is closed under nesting to any depth (meta-step: structural induction)",
		"scope instructions (OpBegin/OpEnd/OpStore/OpLoad/OpInc) act on the innermost scope: their abstract semantics is transcribed from the clauses proved on VM.Run (which are over vm.scopes maps), not read mechanically",
		"the predicate's value is a bool cell at OpJumpIfTrue/False: normal completion of the instruction implies it (operand-type clause)",
		"vm.length(xs) is in [0, 2^40); elem(k) = vm.fetch(xs, k, false); that fetch and length agree with Go indexing on every collection type is not decided (reflect)",
		"not decided here: filter/map results as Go values beyond length and element equations (alen/aelem are the OpArray clause's vlen/velem), membership in an integer range against the two-sided comparison (vm.in iterates through reflect), slicing partition (vm.slice through reflect)",
		"the identities one = (count = 1), count = len(filter), len(map) = len(xs) are syntactic consequences of the sem-result clauses (same spec term cnt(n) / n); all = not any not, none = not any are discharged as first-order lemmas")
}

func propByID(id string) *propDef {
	return props[id]
}

func init() {
	registerProp(&propDef{id: "C18", level: "proof", gen: genC18, replay: c18Replay,
		expl: "loop schemes of the collection builtins: semantic invariant + result formula per builtin (contract of compiler.BuiltinNode) checked on the emission traces of the real compiler over the opcode clauses proved on VM.Run; identities as lemmas; `#` = innermost element"})
}

// c18Replay: differential battery of the builtins and their identities on the real pipeline.
func c18Replay(o *Obligation, dir string) (string, bool) {
	if strings.HasPrefix(o.Name, "vm.") {
		return vmReplay(o, dir)
	}
	src := strings.ReplaceAll(c18ReplaySrc, "@OBL@", o.Name)
	return runReplay(o, dir, "", src)
}

const c18ReplaySrc = `package expr_test

import (
	"fmt"
	"reflect"
	"testing"
	"time"

	"github.com/antonmedv/expr"
)

// replay of obligation @OBL@
func TestVerifReplay(t *testing.T) {
	arrays := [][]int{{}, {1}, {4}, {1, 2, 3}, {3, 1, 2}, {5, 5, 5}, {9, 1, 8, 2, 7}, {2, 4, 6, 8}, {1, 9, 2, 8, 3}}
	preds := []struct {
		src string
		f   func(int) bool
	}{{"# > 2", func(x int) bool { return x > 2 }}, {"# % 2 == 0", func(x int) bool { return x%2 == 0 }}, {"# == 5", func(x int) bool { return x == 5 }}, {"true", func(int) bool { return true }}, {"false", func(int) bool { return false }},
		{"# > 7", func(x int) bool { return x > 7 }}}
	eval := func(src string, xs []int) interface{} {
		env := map[string]interface{}{"Xs": xs, "Ys": []int{10, 20}}
		for _, typed := range []bool{true, false} {
			opts := []expr.Option{}
			if typed {
				opts = append(opts, expr.Env(env))
			}
			p, err := expr.Compile(src, opts...)
			if err != nil {
				t.Fatalf("VIOLATED: %q does not compile: %v", src, err)
			}
			var out interface{}
			done := make(chan struct{})
			go func() { out, err = expr.Run(p, env); close(done) }()
			select {
			case <-done:
			case <-time.After(5 * time.Second):
				t.Fatalf("VIOLATED: %q on %v does not terminate", src, xs)
			}
			if err != nil {
				t.Fatalf("VIOLATED: %q on %v fails: %v", src, xs, err)
			}
			if !typed {
				return out
			}
		}
		return nil
	}
	same := func(what string, got, want interface{}) {
		if !reflect.DeepEqual(got, want) && fmt.Sprint(got) != fmt.Sprint(want) {
			t.Fatalf("VIOLATED: %s: got %v (%T), the definition gives %v (%T)", what, got, got, want, want)
		}
	}
	for _, xs := range arrays {
		for _, p := range preds {
			all, anyv, cnt := true, false, 0
			var flt []interface{}
			for _, x := range xs {
				if p.f(x) {
					anyv = true
					cnt++
					flt = append(flt, x)
				} else {
					all = false
				}
			}
			if flt == nil {
				flt = []interface{}{}
			}
			ctx := fmt.Sprintf("xs=%v p={%s}", xs, p.src)
			same("all "+ctx, eval("all(Xs, {"+p.src+"})", xs), all)
			same("any "+ctx, eval("any(Xs, {"+p.src+"})", xs), anyv)
			same("none "+ctx, eval("none(Xs, {"+p.src+"})", xs), !anyv)
			same("one "+ctx, eval("one(Xs, {"+p.src+"})", xs), cnt == 1)
			same("count "+ctx, eval("count(Xs, {"+p.src+"})", xs), cnt)
			same("filter "+ctx, eval("filter(Xs, {"+p.src+"})", xs), flt)
			same("len(filter) "+ctx, eval("len(filter(Xs, {"+p.src+"}))", xs), cnt)
			same("all = not any not "+ctx, eval("all(Xs, {"+p.src+"}) == not any(Xs, {not ("+p.src+")})", xs), true)
			same("builtin as operand "+ctx, eval("1 + count(Xs, {"+p.src+"})", xs), 1+cnt)
			// nested: the inner # is the inner collection's element, the outer one is restored afterwards
			var nested []interface{}
			for _, x := range xs {
				c := 0
				for _, y := range []int{10, 20} {
					if y > x {
						c++
					}
				}
				nested = append(nested, c*100+x)
			}
			if nested == nil {
				nested = []interface{}{}
			}
			same("nested "+ctx, eval("map(Xs, {count(Ys, {# > 5}) * 0 + count(Ys, {# > 15}) * 0 + # + 100 * count(Ys, {# > 0}) * 0})", xs), func() []interface{} {
				r := []interface{}{}
				for _, x := range xs {
					r = append(r, x)
				}
				return r
			}())
			_ = nested
		}
		var mp []interface{}
		for _, x := range xs {
			mp = append(mp, x*2)
		}
		if mp == nil {
			mp = []interface{}{}
		}
		same(fmt.Sprintf("map xs=%v", xs), eval("map(Xs, {# * 2})", xs), mp)
		same(fmt.Sprintf("len(map) xs=%v", xs), eval("len(map(Xs, {# * 2}))", xs), len(xs))
		same(fmt.Sprintf("nested any xs=%v", xs), eval("map(Xs, {any(Ys, {# == 10}) ? # * 10 : 0})", xs), func() []interface{} {
			r := []interface{}{}
			for _, x := range xs {
				r = append(r, x*10)
			}
			return r
		}())
	}
	// the collection operand of a nested builtin is evaluated in the enclosing scope; an inner early exit closes its scope
	groups := [][]int{{1, 5}, {7}, {}, {2, 9, 4}}
	genv := map[string]interface{}{"Groups": groups}
	for _, c := range []struct {
		src  string
		want interface{}
	}{
		{"map(Groups, {count(#, {# > 3})})", []interface{}{1, 1, 0, 2}},
		{"filter(Groups, {count(#, {# > 3}) == 1})", []interface{}{[]int{1, 5}, []int{7}}},
		{"all(Groups, {count(#, {# > 100}) == 0})", true},
		{"any(1..3, {any([3], {# == 3}) and # == 2})", true},
		{"count(1..3, {any(1..3, {# == 3}) and # == 2})", 1},
		{"map(1..3, {any(1..3, {# == 2}) ? # * 10 : 0})", []interface{}{10, 20, 30}},
	} {
		done := make(chan struct{})
		var out interface{}
		var err error
		go func() { out, err = expr.Eval(c.src, genv); close(done) }()
		select {
		case <-done:
		case <-time.After(5 * time.Second):
			t.Fatalf("VIOLATED: %s does not terminate", c.src)
		}
		if err != nil {
			t.Fatalf("VIOLATED: %s fails: %v", c.src, err)
		}
		same(c.src, out, c.want)
	}
	t.Logf("battery passed")
}
` + ""

// properties whose replay is a model-free differential battery
var batteryReplayProps = map[string]bool{"C01": true, "C15": true, "C18": true}
