package main

// Contract expression language: Go expression syntax (parsed with go/parser)
// plus implies/forall/exists/old/ite and registered spec functions.

import (
	"fmt"
	"go/ast"
	"go/constant"
	"go/parser"
	"go/token"
	"go/types"
	"math/big"
	"sort"
	"strconv"
	"strings"

	"golang.org/x/tools/go/ssa"
)

type SpecEnv struct {
	e      *Exec
	st     *State
	old    *State
	vars   map[string]*Value
	fn     *ssa.Function
	lookup func(name string) *Value
	bound  map[string]*Value
	// loop context
	pre       *State
	preLookup func(name string) *Value
	water0    *Term
	head       *State
	headLookup func(name string) *Value
}

func (env *SpecEnv) child() *SpecEnv {
	n := *env
	n.bound = map[string]*Value{}
	for k, v := range env.bound {
		n.bound[k] = v
	}
	return &n
}

type SpecFunc func(env *SpecEnv, args []*Value) *Value

var specFuncs = map[string]SpecFunc{}

var specCache = map[string]ast.Expr{}

func parseSpec(s string) ast.Expr {
	if x, ok := specCache[s]; ok {
		return x
	}
	src := rewriteImplies(s)
	x, err := parser.ParseExpr(src)
	if err != nil {
		panic(fmt.Sprintf("spec syntax error in %q: %v", s, err))
	}
	specCache[s] = x
	return x
}

// rewriteImplies turns top-level (per parenthesis level) "A ==> B" into implies(A, B), right associative.
func rewriteImplies(s string) string {
	depth := 0
	for i := 0; i+2 < len(s); i++ {
		switch s[i] {
		case '(', '[':
			depth++
		case ')', ']':
			depth--
		case '"':
			j := i + 1
			for j < len(s) && s[j] != '"' {
				if s[j] == '\\' {
					j++
				}
				j++
			}
			i = j
		}
		if i+2 < len(s) && depth == 0 && s[i:i+3] == "==>" {
			return "implies(" + rewriteInner(s[:i]) + ", " + rewriteImplies(s[i+3:]) + ")"
		}
	}
	return rewriteInner(s)
}

// rewriteInner rewrites ==> inside parenthesised groups.
func rewriteInner(s string) string {
	if !strings.Contains(s, "==>") {
		return s
	}
	var sb strings.Builder
	i := 0
	for i < len(s) {
		if s[i] == '(' {
			// find matching
			d := 0
			j := i
			for ; j < len(s); j++ {
				if s[j] == '(' {
					d++
				} else if s[j] == ')' {
					d--
					if d == 0 {
						break
					}
				}
			}
			inner := s[i+1 : j]
			// argument lists: split on top-level commas
			parts := splitTop(inner, ',')
			for k := range parts {
				parts[k] = rewriteImplies(parts[k])
			}
			sb.WriteString("(" + strings.Join(parts, ",") + ")")
			i = j + 1
			continue
		}
		sb.WriteByte(s[i])
		i++
	}
	return sb.String()
}

func splitTop(s string, sep byte) []string {
	var out []string
	d := 0
	last := 0
	for i := 0; i < len(s); i++ {
		switch s[i] {
		case '(', '[':
			d++
		case ')', ']':
			d--
		case '"':
			j := i + 1
			for j < len(s) && s[j] != '"' {
				if s[j] == '\\' {
					j++
				}
				j++
			}
			i = j
		default:
			if s[i] == sep && d == 0 {
				out = append(out, s[last:i])
				last = i + 1
			}
		}
	}
	out = append(out, s[last:])
	return out
}

func (e *Exec) evalBool(expr string, env *SpecEnv) *Term {
	v := e.evalSpec(expr, env)
	if len(v.L) != 1 || v.L[0].Sort != SBool {
		panic(fmt.Sprintf("spec %q is not boolean", expr))
	}
	return v.L[0]
}

func (e *Exec) evalSpec(expr string, env *SpecEnv) *Value {
	env.e = e
	if env.fn != nil {
		expr = expandMacros(e.W.Contracts[shortName(env.fn)], expr)
	}
	return env.eval(parseSpec(expr))
}

var tUntypedInt = types.Typ[types.UntypedInt]

func (env *SpecEnv) eval(x ast.Expr) *Value {
	switch x := x.(type) {
	case *ast.ParenExpr:
		return env.eval(x.X)
	case *ast.BasicLit:
		switch x.Kind {
		case token.INT:
			bi, ok := new(big.Int).SetString(x.Value, 0)
			if !ok {
				panic("bad int literal " + x.Value)
			}
			return &Value{T: tUntypedInt, L: []*Term{BVLit(bi, 64)}}
		case token.STRING:
			s, _ := strconv.Unquote(x.Value)
			return &Value{T: tString, L: []*Term{StrLit(s)}}
		case token.CHAR:
			s, _ := strconv.Unquote(x.Value)
			r := []rune(s)[0]
			return &Value{T: tUntypedInt, L: []*Term{BV64(int64(r))}}
		}
	case *ast.Ident:
		return env.ident(x.Name)
	case *ast.SelectorExpr:
		if id, ok := x.X.(*ast.Ident); ok {
			// package-qualified constant?
			if _, isVar := env.tryIdent(id.Name); !isVar {
				if v := env.pkgConst(id.Name, x.Sel.Name); v != nil {
					return v
				}
			}
		}
		return env.field(env.eval(x.X), x.Sel.Name)
	case *ast.StarExpr:
		p := env.eval(x.X)
		T := p.T.Underlying().(*types.Pointer).Elem()
		return &Value{T: T, L: env.e.loadT(env.st, p.One(), T)}
	case *ast.UnaryExpr:
		v := env.eval(x.X)
		switch x.Op {
		case token.NOT:
			return &Value{T: tBool, L: []*Term{Not(v.One())}}
		case token.SUB:
			if isFloat(v.T) {
				return &Value{T: v.T, L: []*Term{App("fp.neg", v.One().Sort, v.One())}}
			}
			return &Value{T: v.T, L: []*Term{BVNeg(v.One())}}
		}
	case *ast.BinaryExpr:
		return env.binary(x)
	case *ast.IndexExpr:
		return env.index(env.eval(x.X), env.eval(x.Index))
	case *ast.CallExpr:
		return env.callExpr(x)
	}
	panic(fmt.Sprintf("spec: unsupported expression %T", x))
}

func (env *SpecEnv) tryIdent(name string) (*Value, bool) {
	if v, ok := env.bound[name]; ok {
		return v, true
	}
	if v, ok := env.vars[name]; ok {
		return v, true
	}
	if env.lookup != nil {
		if v := env.lookup(name); v != nil {
			return v, true
		}
	}
	return nil, false
}

func (env *SpecEnv) ident(name string) *Value {
	switch name {
	case "true":
		return &Value{T: tBool, L: []*Term{True}}
	case "false":
		return &Value{T: tBool, L: []*Term{False}}
	case "nil":
		return &Value{T: types.Typ[types.UntypedNil], L: nil}
	}
	if v, ok := env.tryIdent(name); ok {
		return v
	}
	if env.fn != nil {
		for f := env.fn; f != nil; f = f.Parent() {
			if p := f.Package(); p != nil {
				if v := env.pkgMember(p, name); v != nil {
					return v
				}
				break
			}
		}
	}
	panic("spec: unknown identifier " + name)
}

func (env *SpecEnv) pkgMember(p *ssa.Package, name string) *Value {
	switch m := p.Members[name].(type) {
	case *ssa.NamedConst:
		return env.e.constVal(m.Value)
	case *ssa.Global:
		T := m.Type().(*types.Pointer).Elem()
		return &Value{T: T, L: env.e.loadT(env.st, env.e.globalLoc(m), T)}
	}
	return nil
}

func (env *SpecEnv) pkgConst(pkg, name string) *Value {
	for short, sp := range env.e.W.SSAPkgs {
		if short == pkg || strings.HasSuffix(short, "/"+pkg) || (pkg == "expr" && short == "") {
			if v := env.pkgMember(sp, name); v != nil {
				return v
			}
		}
	}
	return nil
}

func (env *SpecEnv) field(v *Value, name string) *Value {
	T := v.T
	if p, ok := T.Underlying().(*types.Pointer); ok {
		st, ok := p.Elem().Underlying().(*types.Struct)
		if !ok {
			panic("spec: field of non-struct pointer " + T.String())
		}
		for i := 0; i < st.NumFields(); i++ {
			if st.Field(i).Name() == name {
				loc := LocField(v.One(), fieldLeafOffset(st, i))
				FT := st.Field(i).Type()
				return &Value{T: FT, L: env.e.loadT(env.st, loc, FT)}
			}
		}
		// promoted through embedded struct
		for i := 0; i < st.NumFields(); i++ {
			if st.Field(i).Embedded() {
				if est, ok := st.Field(i).Type().Underlying().(*types.Struct); ok {
					for j := 0; j < est.NumFields(); j++ {
						if est.Field(j).Name() == name {
							loc := LocField(v.One(), fieldLeafOffset(st, i)+fieldLeafOffset(est, j))
							FT := est.Field(j).Type()
							return &Value{T: FT, L: env.e.loadT(env.st, loc, FT)}
						}
					}
				}
			}
		}
		panic("spec: no field " + name + " in " + T.String())
	}
	if st, ok := T.Underlying().(*types.Struct); ok {
		for i := 0; i < st.NumFields(); i++ {
			if st.Field(i).Name() == name {
				off := fieldLeafOffset(st, i)
				n := numLeaves(st.Field(i).Type())
				return &Value{T: st.Field(i).Type(), L: v.L[off : off+n]}
			}
		}
	}
	panic("spec: cannot select " + name + " from " + T.String())
}

func (env *SpecEnv) index(a, i *Value) *Value {
	switch u := a.T.Underlying().(type) {
	case *types.Slice:
		loc := LocIndex(a.L[0], env.e.asInt64(coerceInt(i, tInt)))
		return &Value{T: u.Elem(), L: env.e.loadT(env.st, loc, u.Elem())}
	case *types.Basic:
		return &Value{T: types.Typ[types.Uint8], L: []*Term{SByte(a.One(), env.e.asInt64(coerceInt(i, tInt)))}}
	case *types.Map:
		ks := leafSorts(u.Key())[0]
		k := i
		if k.T == tUntypedInt {
			k = coerceInt(k, u.Key())
		}
		var L []*Term
		for j, s := range leafSorts(u.Elem()) {
			L = append(L, Select(env.st.Sel(env.st.MapVal(ks, j, s), a.One()), k.L[0]))
		}
		return &Value{T: u.Elem(), L: L}
	}
	panic("spec: cannot index " + a.T.String())
}

func coerceInt(v *Value, T types.Type) *Value {
	if v.T != tUntypedInt {
		return v
	}
	if isFloat(T) {
		f, _ := new(big.Float).SetInt(signed(v.One().BV, 64)).Float64()
		if leafSorts(T)[0] == SF32 {
			return &Value{T: T, L: []*Term{FPLit32(float32bits(float32(f)))}}
		}
		return &Value{T: T, L: []*Term{FPLit64(float64bits(f))}}
	}
	w := bvWidth(leafSorts(T)[0])
	if w == 0 {
		panic("coerceInt to " + T.String())
	}
	t := v.One()
	if t.BV != nil {
		return &Value{T: T, L: []*Term{BVLit(signed(t.BV, 64), w)}}
	}
	if w == 64 {
		return &Value{T: T, L: []*Term{t}}
	}
	return &Value{T: T, L: []*Term{Extract(w-1, 0, t)}}
}

func (env *SpecEnv) binary(x *ast.BinaryExpr) *Value {
	switch x.Op {
	case token.LAND:
		return &Value{T: tBool, L: []*Term{And(env.eval(x.X).One(), env.eval(x.Y).One())}}
	case token.LOR:
		return &Value{T: tBool, L: []*Term{Or(env.eval(x.X).One(), env.eval(x.Y).One())}}
	}
	a, b := env.eval(x.X), env.eval(x.Y)
	if (a.T == nil || b.T == nil) && len(a.L) == 1 && len(b.L) == 1 && a.L[0].Sort == b.L[0].Sort {
		// raw object identities
		switch x.Op {
		case token.EQL:
			return &Value{T: tBool, L: []*Term{Eq(a.L[0], b.L[0])}}
		case token.NEQ:
			return &Value{T: tBool, L: []*Term{Not(Eq(a.L[0], b.L[0]))}}
		}
		panic("spec: only == and != on object identities")
	}
	// nil comparisons
	if a.T == types.Typ[types.UntypedNil] {
		a = &Value{T: b.T, L: zeroLeaves(b.T)}
	}
	if b.T == types.Typ[types.UntypedNil] {
		b = &Value{T: a.T, L: zeroLeaves(a.T)}
	}
	if a.T == tUntypedInt && b.T != tUntypedInt {
		a = coerceInt(a, b.T)
	}
	if b.T == tUntypedInt && a.T != tUntypedInt {
		b = coerceInt(b, a.T)
	}
	if a.T == tUntypedInt && b.T == tUntypedInt {
		a, b = coerceInt(a, tInt), coerceInt(b, tInt)
	}
	rt := a.T
	switch x.Op {
	case token.EQL, token.NEQ, token.LSS, token.GTR, token.LEQ, token.GEQ:
		rt = tBool
		if _, ok := a.T.Underlying().(*types.Slice); ok && (x.Op == token.EQL || x.Op == token.NEQ) {
			// spec-level slice equality: same header
			r := And(Eq(a.L[0], b.L[0]), Eq(a.L[1], b.L[1]))
			if x.Op == token.NEQ {
				r = Not(r)
			}
			return &Value{T: tBool, L: []*Term{r}}
		}
	}
	r, _ := env.e.binop(env.st, x.Op, a, b, rt)
	return r
}

func (env *SpecEnv) callExpr(x *ast.CallExpr) *Value {
	fname := ""
	switch f := x.Fun.(type) {
	case *ast.Ident:
		fname = f.Name
	case *ast.SelectorExpr:
		if id, ok := f.X.(*ast.Ident); ok {
			fname = id.Name + "." + f.Sel.Name
		}
	}
	switch fname {
	case "implies":
		return &Value{T: tBool, L: []*Term{Implies(env.eval(x.Args[0]).One(), env.eval(x.Args[1]).One())}}
	case "iff":
		return &Value{T: tBool, L: []*Term{Eq(env.eval(x.Args[0]).One(), env.eval(x.Args[1]).One())}}
	case "ite":
		c := env.eval(x.Args[0]).One()
		a, b := env.eval(x.Args[1]), env.eval(x.Args[2])
		if a.T == tUntypedInt {
			a = coerceInt(a, b.T)
		}
		if b.T == tUntypedInt {
			b = coerceInt(b, a.T)
		}
		var L []*Term
		for i := range a.L {
			L = append(L, Ite(c, a.L[i], b.L[i]))
		}
		return &Value{T: a.T, L: L}
	case "old":
		n := *env
		if env.old != nil {
			n.st = env.old
		}
		return n.eval(x.Args[0])
	case "pre":
		// value at entry of the enclosing loop (before the havoc)
		n := *env
		if env.pre != nil {
			n.st = env.pre
			n.lookup = env.preLookup
		}
		return n.eval(x.Args[0])
	case "forallval":
		// forallval(k, body): k ranges over all interface values
		id := x.Args[0].(*ast.Ident)
		c := env.child()
		bv := BoundVar(fmt.Sprintf("%s_q%d", id.Name, freshSeqNext()), SVal)
		c.bound[id.Name] = &Value{T: types.NewInterfaceType(nil, nil), L: []*Term{bv}}
		return &Value{T: tBool, L: []*Term{Forall([]*Term{bv}, c.eval(x.Args[1]).One())}}
	case "has":
		m, k := env.eval(x.Args[0]), env.eval(x.Args[1])
		return &Value{T: tBool, L: []*Term{And(Not(Eq(m.One(), NilLoc)), Select(env.st.Sel(env.st.MapHas(k.L[0].Sort), m.One()), k.L[0]))}}
	case "head":
		// value at the head of the current iteration of the enclosing loop
		n := *env
		if env.head != nil {
			n.st = env.head
			hl, cur := env.headLookup, env.lookup
			// a name that has no value yet at the loop head (a range key or value, a local of the body) keeps its
			// current value: head(has(m, k)) reads the map as it was at the head, at the key of this iteration
			n.lookup = func(name string) *Value {
				if hl != nil {
					if v := hl(name); v != nil {
						return v
					}
				}
				if cur != nil {
					return cur(name)
				}
				return nil
			}
		}
		return n.eval(x.Args[0])
	case "obj":
		v := env.eval(x.Args[0])
		return &Value{T: nil, L: []*Term{LObj(v.L[0])}}
	case "fresh":
		// allocated after the enclosing loop (or function) was entered
		v := env.eval(x.Args[0])
		w := env.water0
		if w == nil {
			panic("spec: fresh() outside a loop context")
		}
		return &Value{T: tBool, L: []*Term{IntCmp(">", LObj(v.L[0]), w)}}
	case "preexisting":
		v := env.eval(x.Args[0])
		return &Value{T: tBool, L: []*Term{IntCmp("<=", LObj(v.L[0]), env.water0)}}
	case "galloc":
		if env.st.allocs == nil {
			panic("spec: galloc() is not tracked here")
		}
		return &Value{T: tInt, L: []*Term{env.st.allocs}}
	case "isnil":
		v := env.eval(x.Args[0])
		return &Value{T: tBool, L: []*Term{Eq(v.L[0], zeroOfSort(v.L[0].Sort))}}
	case "forall", "exists":
		id := x.Args[0].(*ast.Ident)
		c := env.child()
		bv := BoundVar(fmt.Sprintf("%s_q%d", id.Name, freshSeqNext()), SBV(64))
		c.bound[id.Name] = &Value{T: tInt, L: []*Term{bv}}
		body := c.eval(x.Args[len(x.Args)-1]).One()
		if len(x.Args) == 4 {
			lo := coerceInt(c.eval(x.Args[1]), tInt).One()
			hi := coerceInt(c.eval(x.Args[2]), tInt).One()
			rng := And(BVCmp("bvsle", lo, bv), BVCmp("bvslt", bv, hi))
			if fname == "forall" {
				body = Implies(rng, body)
			} else {
				body = And(rng, body)
			}
		}
		if fname == "forall" {
			return &Value{T: tBool, L: []*Term{Forall([]*Term{bv}, body)}}
		}
		return &Value{T: tBool, L: []*Term{Exists([]*Term{bv}, body)}}
	case "len":
		a := env.eval(x.Args[0])
		switch a.T.Underlying().(type) {
		case *types.Slice:
			return &Value{T: tInt, L: []*Term{a.L[1]}}
		case *types.Basic:
			return &Value{T: tInt, L: []*Term{SLen(a.One())}}
		}
		panic("spec: len of " + a.T.String())
	case "cap":
		a := env.eval(x.Args[0])
		return &Value{T: tInt, L: []*Term{a.L[2]}}
	case "int", "int8", "int16", "int32", "int64", "uint", "uint8", "uint16", "uint32", "uint64", "float32", "float64", "byte":
		a := env.eval(x.Args[0])
		T := types.Universe.Lookup(fname).Type()
		if a.T == tUntypedInt {
			return coerceInt(a, T)
		}
		return env.e.convert(env.st, a, T)
	}
	if sf, ok := specFuncs[fname]; ok {
		var args []*Value
		for _, a := range x.Args {
			args = append(args, env.eval(a))
		}
		return sf(env, args)
	}
	panic("spec: unknown function " + fname)
}

func float32bits(f float32) uint32 { return mathFloat32bits(f) }
func float64bits(f float64) uint64 { return mathFloat64bits(f) }

// ---- environments

// entryEnv binds parameter names of fn to args. pre (optional) is the state
// used for old(...).
func (e *Exec) entryEnv(st *State, fn *ssa.Function, args []*Value, pre *State) *SpecEnv {
	env := &SpecEnv{e: e, st: st, old: pre, vars: map[string]*Value{}, fn: fn, bound: map[string]*Value{}}
	for i, p := range fn.Params {
		if i < len(args) {
			env.vars[p.Name()] = args[i]
		}
	}
	return env
}

// ---- loops

func loopHeaders(fn *ssa.Function) []*ssa.BasicBlock {
	var hs []*ssa.BasicBlock
	for _, b := range fn.Blocks {
		if isLoopHeader(b) {
			hs = append(hs, b)
		}
	}
	// order by source position of the first positioned instruction, then index
	sort.SliceStable(hs, func(i, j int) bool { return hs[i].Index < hs[j].Index })
	return hs
}

func loopOrdinal(fn *ssa.Function, h *ssa.BasicBlock) int {
	for i, b := range loopHeaders(fn) {
		if b == h {
			return i
		}
	}
	return -1
}

// loopBody returns the natural loop of header h.
func loopBody(h *ssa.BasicBlock) map[*ssa.BasicBlock]bool {
	body := map[*ssa.BasicBlock]bool{h: true}
	var stack []*ssa.BasicBlock
	for _, p := range h.Preds {
		if isBackEdge(p, h) && !body[p] {
			body[p] = true
			stack = append(stack, p)
		}
	}
	for len(stack) > 0 {
		b := stack[len(stack)-1]
		stack = stack[:len(stack)-1]
		for _, p := range b.Preds {
			if !body[p] {
				body[p] = true
				stack = append(stack, p)
			}
		}
	}
	return body
}

// nameLookup resolves source-level names at a program point dominated by blk.
func (e *Exec) nameLookup(st *State, fr *Frame, at *ssa.BasicBlock) func(string) *Value {
	return func(name string) *Value {
		// phis of the block
		for _, in := range at.Instrs {
			if phi, ok := in.(*ssa.Phi); ok {
				if phi.Comment == name {
					if v, ok := fr.vals[phi]; ok {
						return v
					}
				}
			} else {
				break
			}
		}
		for _, p := range fr.fn.Params {
			if p.Name() == name {
				return fr.vals[p]
			}
		}
		for _, fv := range fr.fn.FreeVars {
			if fv.Name() == name {
				cell := fr.vals[fv]
				T := fv.Type().(*types.Pointer).Elem()
				return &Value{T: T, L: e.loadT(st, cell.One(), T)}
			}
		}
		// named allocs / debug refs already evaluated on this path
		var best *Value
		bestIdx := -1
		for _, b := range fr.fn.Blocks {
			// any definition already evaluated on this path is visible
			for _, in := range b.Instrs {
				switch in := in.(type) {
				case *ssa.Alloc:
					if in.Comment == name {
						if v, ok := fr.vals[in]; ok {
							T := in.Type().(*types.Pointer).Elem()
							return &Value{T: T, L: e.loadT(st, v.One(), T)}
						}
					}
				case *ssa.DebugRef:
					if id, ok := in.Expr.(*ast.Ident); ok && id.Name == name {
						v, ok := fr.vals[in.X]
						if !ok {
							// a component of a tuple (range key / value, comma-ok) is extracted on demand
							if ex, isEx := in.X.(*ssa.Extract); isEx {
								if _, has := fr.vals[ex.Tuple]; has {
									v, ok = e.val(st, fr, ex), true
								}
							}
						}
						if ok && b.Index >= bestIdx {
							if in.IsAddr {
								T := in.X.Type().(*types.Pointer).Elem()
								best = &Value{T: T, L: e.loadT(st, v.One(), T)}
							} else {
								best = v
							}
							bestIdx = b.Index
						} else if c, ok := in.X.(*ssa.Const); ok {
							best = e.constVal(c)
							bestIdx = b.Index
						}
					}
				}
			}
		}
		return best
	}
}

// loopCut implements the invariant rule at loop header b.
func (e *Exec) loopCutOld(st *State, fr *Frame, b, pred *ssa.BasicBlock) bool {
	ord := loopOrdinal(fr.fn, b)
	var spec *LoopSpec
	if fr.ct != nil {
		spec = fr.ct.Loops[fmt.Sprint(ord)]
	}
	if spec == nil {
		spec = &LoopSpec{}
		e.Note("loop %d of %s has no invariant: cut with invariant true", ord, shortName(fr.fn))
	}
	fname := shortName(fr.fn)
	pi := -1
	for i, p := range b.Preds {
		if p == pred {
			pi = i
		}
	}
	// bind phis to the incoming values (for evaluating the invariant)
	incoming := map[ssa.Value]*Value{}
	for _, in := range b.Instrs {
		phi, ok := in.(*ssa.Phi)
		if !ok {
			break
		}
		incoming[phi] = e.val(st, fr, phi.Edges[pi])
	}
	for k, v := range incoming {
		fr.vals[k] = v
	}
	mkEnv := func() *SpecEnv {
		env := &SpecEnv{e: e, st: st, old: fr.entryState, vars: map[string]*Value{}, fn: fr.fn, bound: map[string]*Value{}}
		env.lookup = e.nameLookup(st, fr, b)
		for k, v := range fr.specVars {
			env.vars[k] = v
		}
		return env
	}
	back := pred != nil && isBackEdge(pred, b)
	if back {
		env := mkEnv()
		for _, inv := range spec.Invariants {
			e.Assert(fmt.Sprintf("%s/loop%d/inv-pres[%s]", fname, ord, inv.Label), "inv-pres", fr.fn.String(), st, e.evalBool(inv.Expr, env), inv.Expr)
		}
		if spec.Decreases != "" {
			d := coerceInt(e.evalSpec(spec.Decreases, env), tInt).One()
			d0 := fr.loopSnap[b].dec
			e.Assert(fmt.Sprintf("%s/loop%d/dec", fname, ord), "dec", fr.fn.String(), st,
				And(BVCmp("bvslt", d, d0), BVCmp("bvsge", d0, BV64(0))), spec.Decreases)
		}
		return true
	}
	// entry
	env := mkEnv()
	for _, inv := range spec.Invariants {
		e.Assert(fmt.Sprintf("%s/loop%d/inv-init[%s]", fname, ord, inv.Label), "inv-init", fr.fn.String(), st, e.evalBool(inv.Expr, env), inv.Expr)
	}
	// havoc
	body := loopBody(b)
	for _, in := range b.Instrs {
		phi, ok := in.(*ssa.Phi)
		if !ok {
			break
		}
		fr.vals[phi] = e.havocLike(st, incoming[phi], phi.Comment)
	}
	keys, all := e.loopWrites(fr.fn, body)
	if all {
		e.havocWithFrame(st, nil, spec, mkEnv)
	} else if len(keys) > 0 {
		e.havocWithFrame(st, keys, spec, mkEnv)
	}
	env = mkEnv()
	for _, inv := range spec.Invariants {
		st.Assume(e.evalBool(inv.Expr, env))
	}
	if spec.Decreases != "" {
		fr.loopSnap[b] = &loopSnapshot{dec: coerceInt(e.evalSpec(spec.Decreases, env), tInt).One()}
	}
	e.runFrom(st, fr, b, 0)
	return true
}

func (e *Exec) havocLike(st *State, v *Value, tag string) *Value {
	hv := e.havocValue(st, v.T, tag)
	hv.Fn, hv.Bnd = nil, nil
	return hv
}

// havocWithFrame replaces the memories in keys (nil = all) by fresh arrays; if
// the loop has a modifies clause, locations outside the listed objects keep
// their values.
func (e *Exec) havocWithFrame(st *State, keys map[string]bool, spec *LoopSpec, mkEnv func() *SpecEnv) {
	var objs []*Term
	framed := len(spec.Modifies) > 0
	if framed {
		env := mkEnv()
		for _, m := range spec.Modifies {
			if m == "nothing" {
				continue
			}
			v := e.evalSpec(m, env)
			objs = append(objs, LObj(v.L[0]))
		}
	}
	var ks []string
	for k := range st.mem {
		if keys == nil || keys[k] {
			ks = append(ks, k)
		}
	}
	sort.Strings(ks)
	water0 := st.water
	for _, k := range ks {
		old := st.mem[k]
		nw := Fresh("Ml_"+sortKey(k), old.Sort)
		if framed {
			l := BoundVar(fmt.Sprintf("ll%d", freshSeqNext()), SLoc)
			var same []*Term
			for _, o := range objs {
				same = append(same, Not(Eq(LObj(l), o)))
			}
			same = append(same, IntCmp("<=", LObj(l), water0))
			st.Assume(Forall([]*Term{l}, Implies(And(same...), Eq(Select(nw, l), Select(old, l)))))
		}
		st.mem[k] = nw
	}
	// allocations inside the loop move the watermark
	st.water = Fresh("Wl", SInt)
	st.Assume(IntCmp(">=", st.water, water0))
}

// loopWrites: memory keys possibly written in the loop body.
func (e *Exec) loopWrites(fn *ssa.Function, body map[*ssa.BasicBlock]bool) (map[string]bool, bool) {
	keys := map[string]bool{}
	all := false
	seen := map[*ssa.Function]bool{}
	var scanFn func(f *ssa.Function)
	scanInstr := func(in ssa.Instruction) {
		switch in := in.(type) {
		case *ssa.Store:
			for _, s := range leafSorts(in.Val.Type()) {
				keys["M:"+s] = true
			}
		case *ssa.MapUpdate:
			mt := in.Map.Type().Underlying().(*types.Map)
			ks := leafSorts(mt.Key())
			if len(ks) == 1 {
				keys["MH:"+ks[0]] = true
				for j, s := range leafSorts(mt.Elem()) {
					keys[fmt.Sprintf("MV:%s:%d:%s", ks[0], j, s)] = true
				}
			}
		case *ssa.Alloc:
			for _, s := range leafSorts(in.Type().(*types.Pointer).Elem()) {
				keys["M:"+s] = true
			}
		case *ssa.MakeInterface:
			// boxing structs stores to memory
			switch in.X.Type().Underlying().(type) {
			case *types.Struct, *types.Array:
				for _, s := range leafSorts(in.X.Type()) {
					keys["M:"+s] = true
				}
			}
		case ssa.CallInstruction:
			cc := in.Common()
			if cc.IsInvoke() {
				if isNamed(cc.Value.Type(), "reflect", "Type") {
					return
				}
				all = true
				return
			}
			switch f := cc.Value.(type) {
			case *ssa.Builtin:
				if f.Name() == "append" {
					if sl, ok := cc.Args[0].Type().Underlying().(*types.Slice); ok {
						for _, s := range leafSorts(sl.Elem()) {
							keys["M:"+s] = true
						}
					}
				}
				if f.Name() == "copy" {
					all = true
				}
			case *ssa.Function:
				if isPureLib(f.String()) {
					return
				}
				if ct := e.W.Contracts[shortName(f)]; ct != nil && !ct.Inline && len(ct.Ensures)+len(ct.Requires) > 0 {
					if !ct.Pure {
						all = true
					}
					return
				}
				if len(f.Blocks) > 0 && e.inModule(f) {
					scanFn(f)
					return
				}
				all = true
			case *ssa.MakeClosure:
				scanFn(f.Fn.(*ssa.Function))
			default:
				all = true
			}
		}
	}
	scanFn = func(f *ssa.Function) {
		if seen[f] {
			return
		}
		seen[f] = true
		for _, b := range f.Blocks {
			for _, in := range b.Instrs {
				scanInstr(in)
			}
		}
	}
	for b := range body {
		for _, in := range b.Instrs {
			scanInstr(in)
		}
	}
	return keys, all
}

func isPureLib(name string) bool {
	switch {
	case strings.HasPrefix(name, "fmt.S"), strings.HasPrefix(name, "fmt.Errorf"), strings.HasPrefix(name, "strings."),
		strings.HasPrefix(name, "unicode"), strings.HasPrefix(name, "strconv."), strings.HasPrefix(name, "reflect."),
		strings.HasPrefix(name, "(reflect.Value)."), strings.HasPrefix(name, "math."), strings.HasPrefix(name, "regexp."),
		strings.HasPrefix(name, "(*regexp.Regexp)."), strings.HasPrefix(name, "(*strings.Replacer)."), strings.HasPrefix(name, "errors."):
		return name != "unicode/utf8.EncodeRune"
	}
	return false
}

var _ = constant.MakeBool
