package main

import (
	"fmt"
	"os"
	"runtime/pprof"
	"sort"
	"strconv"
	"strings"
	"time"

	"golang.org/x/tools/go/ssa"
)

type ssaFunction = ssa.Function

var stopProf = func() {}

type propDef struct {
	id     string
	level  string
	gen    func(w *World, res *CheckResult)
	replay func(o *Obligation, dir string) (string, bool)
	expl   string
}

var props = map[string]*propDef{}

func registerProp(p *propDef) { props[p.id] = p }

func init() {
	registerProp(&propDef{id: "C14", level: "proof", gen: genC14, replay: c14Replay,
		expl: "per helper x ordered kind pair: symbolic execution of the real generated helper (go/ssa) with typ(a)=Ka, typ(b)=Kb; post-condition result = op_hi(conv(a),conv(b)) over full 64-bit / IEEE domains; loop-free, so each discharged cell is a complete proof"})
}

func usage() {
	fmt.Fprintln(os.Stderr, "usage: verif-engine check <Cxx> [--tier quick|thorough] [--write-baseline] | replay <Cxx> <path> | list | ssa <func>")
	os.Exit(2)
}

func main() {
	if len(os.Args) < 2 {
		usage()
	}
	defer cleanupScratch()
	if pf := os.Getenv("VERIF_PROF"); pf != "" {
		f, _ := os.Create(pf)
		pprof.StartCPUProfile(f)
		stopProf = func() { pprof.StopCPUProfile(); f.Close() }
	}
	if r := os.Getenv("VERIF_REPO"); r != "" {
		repoRoot = r
	}
	if r := os.Getenv("VERIF_ROOT"); r != "" {
		verifRoot = r
	}
	switch os.Args[1] {
	case "check":
		if len(os.Args) < 3 {
			usage()
		}
		code := runCheck(os.Args[2], os.Args[3:])
		cleanupScratch()
		stopProf()
		os.Exit(code)
	case "list":
		var ids []string
		for id := range props {
			ids = append(ids, id)
		}
		sort.Strings(ids)
		fmt.Println(strings.Join(ids, " "))
	case "ssa":
		w, err := LoadWorld(repoRoot)
		if err != nil {
			fmt.Fprintln(os.Stderr, err)
			os.Exit(2)
		}
		if len(os.Args) < 3 {
			for _, n := range w.FuncNames() {
				fmt.Println(n)
			}
			return
		}
		fn := w.Func(os.Args[2])
		if fn == nil {
			fmt.Fprintln(os.Stderr, "no such function; try: verif-engine ssa")
			os.Exit(2)
		}
		fn.WriteTo(os.Stdout)
		for _, a := range fn.AnonFuncs {
			a.WriteTo(os.Stdout)
		}
	case "replay":
		if len(os.Args) < 4 {
			usage()
		}
		os.Exit(runReplayCmd(os.Args[2], os.Args[3]))
	default:
		if !extraCmd(os.Args[1:]) {
			usage()
		}
	}
}

func runCheck(id string, args []string) int {
	t0 := time.Now()
	p := props[id]
	if p == nil {
		fmt.Fprintf(os.Stderr, "unknown property %s\n", id)
		return 2
	}
	tier := Tier{Name: "quick", TimeoutS: 10}
	if t := os.Getenv("VERIF_TIER"); t == "thorough" {
		tier = Tier{Name: "thorough", TimeoutS: 60, Agree: true}
	}
	writeBase := false
	for i := 0; i < len(args); i++ {
		switch args[i] {
		case "--tier":
			i++
			if i < len(args) && args[i] == "thorough" {
				tier = Tier{Name: "thorough", TimeoutS: 60, Agree: true}
			} else {
				tier = Tier{Name: "quick", TimeoutS: 10}
			}
		case "--write-baseline":
			writeBase = true
		}
	}
	seed := 0
	if s := os.Getenv("VERIF_SEED"); s != "" {
		seed, _ = strconv.Atoi(s)
	}
	w, err := LoadWorld(repoRoot)
	if err != nil {
		// the tree does not load: nothing can be shown
		fmt.Printf("engine: cannot load %s: %v\n", repoRoot, err)
		return 2
	}
	loadS := time.Since(t0).Seconds()
	res := &CheckResult{Prop: id, Level: p.level, Explanation: p.expl, Extra: map[string]interface{}{}}
	tg := time.Now()
	func() {
		defer func() {
			if r := recover(); r != nil {
				if os.Getenv("VERIF_DEBUG") != "" {
					panic(r)
				}
				res.Obls = append(res.Obls, &Obligation{Name: id + "/generator", Kind: "post", Expect: "unsat", Status: "undecided", Backend: "generator",
					Output: fmt.Sprintf("condition generator failed: %v", r)})
			}
		}()
		p.gen(w, res)
	}()
	res.Extra["load_seconds"] = round3(loadS)
	res.Extra["generation_seconds"] = round3(time.Since(tg).Seconds())
	var cfs []string
	seen := map[string]bool{}
	for _, c := range w.Contracts {
		if !seen[c.File] {
			seen[c.File] = true
			cfs = append(cfs, c.File)
		}
	}
	sort.Strings(cfs)
	res.Extra["contract_files"] = cfs
	for t := range w.trusted {
		res.Trusted = append(res.Trusted, t)
	}
	res.Trusted = append(res.Trusted,
		"go/ssa (x/tools v0.29.0) builds SSA that means what the Go compiler compiles",
		"the engine's SSA->SMT translation (/verif/engine) and its term simplifier",
		"SMT solvers z3 4.8.12 / z3-new 5.1.0 / cvc5 1.0.3 (raced; thorough tier requires agreement)",
		"target is amd64: int and uint are 64 bits")
	sort.Strings(res.Trusted)
	sort.Strings(res.Assumptions)
	return Finish(res, tier, seed, t0, writeBase, p.replay)
}

func runReplayCmd(id, path string) int {
	b, err := os.ReadFile(path)
	if err != nil {
		fmt.Fprintln(os.Stderr, err)
		return 2
	}
	fmt.Println(string(b))
	return 0
}
