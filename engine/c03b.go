package main

import (
	"fmt"
	"go/types"
	"strings"

	"golang.org/x/tools/go/ssa"
)

// genCheckerVisits (syntactic over SSA): the checker types a node only by visiting it, and everything after the
// checker (operator patching, the optimizer's rewrites, the compiler's opcode selection) reads the recorded types.
//
//	checker.visitor.<Kind>/visits[<Field>]   every child field of the node (ast.Node or []ast.Node) is handed to
//	                                         visit, or as the argument list to checkFunc, in the kind's method
//	checker.visitor.<F>/then-calls[...]      `schema then-calls <Field> <callee>`: once the method has assigned the
//	                                         field, no return is reached without a call of the callee
func genCheckerVisits(w *World, res *CheckResult) {
	kinds, nodeT := astNodeKinds(w)
	if len(kinds) == 0 {
		res.Obls = append(res.Obls, missingObl("checker.visitor/visits/exists", "ast node kinds not found"))
		return
	}
	mk := func(name string, ok bool, why string, fn *ssa.Function) {
		o := &Obligation{Name: name, Kind: "post", Expect: "unsat", Backend: "syntactic", Func: fn.String(), Meta: map[string]string{}, Status: "discharged", Output: why}
		if !ok {
			o.Status = "undecided"
		}
		res.Obls = append(res.Obls, o)
	}
	for _, kd := range kinds {
		fn := w.Func("checker.visitor." + kd.name)
		if fn == nil || len(fn.Params) < 2 {
			continue
		}
		for i := 0; i < kd.st.NumFields(); i++ {
			f := kd.st.Field(i)
			isNode := types.Identical(f.Type(), nodeT)
			isList := false
			if sl, ok := f.Type().Underlying().(*types.Slice); ok && types.Identical(sl.Elem(), nodeT) {
				isList = true
			}
			if !isNode && !isList {
				continue
			}
			ok := false
			for _, b := range fn.Blocks {
				for _, in := range b.Instrs {
					fa, isFA := in.(*ssa.FieldAddr)
					if !isFA || fa.Field != i || fa.X != ssa.Value(fn.Params[1]) {
						continue
					}
					if reachesVisit(fa, isList, 0) {
						ok = true
					}
				}
			}
			why := "node." + f.Name() + " is handed to visit (or to checkFunc as the argument list)"
			if !ok {
				why = "node." + f.Name() + " is never handed to visit: the subtree keeps no static type"
			}
			mk(fmt.Sprintf("checker.visitor.%s/visits[%s]", kd.name, f.Name()), ok, why, fn)
		}
	}
	for name, ct := range w.Contracts {
		for _, sc := range ct.Schemas {
			if len(sc) != 3 || sc[0] != "then-calls" {
				continue
			}
			fn := w.Func(name)
			if fn == nil {
				res.Obls = append(res.Obls, missingObl(name+"/then-calls/exists", "function not found"))
				continue
			}
			bad := thenCalls(fn, sc[1], sc[2])
			why := "every path from an assignment of " + sc[1] + " to a return calls " + sc[2]
			if bad != "" {
				why = bad
			}
			mk(fmt.Sprintf("%s/then-calls[%s,%s]", name, sc[1], sc[2]), bad == "", why, fn)
		}
	}
}

// reachesVisit: the value at address v (a node, or a list whose elements) flows into a call of visit; a list may
// also be passed whole to checkFunc.
func reachesVisit(v ssa.Value, list bool, depth int) bool {
	if depth > 6 || v.Referrers() == nil {
		return false
	}
	for _, r := range *v.Referrers() {
		switch y := r.(type) {
		case *ssa.UnOp, *ssa.Phi, *ssa.ChangeInterface, *ssa.MakeInterface, *ssa.Slice:
			if reachesVisit(y.(ssa.Value), list, depth+1) {
				return true
			}
		case *ssa.IndexAddr:
			if list && reachesVisit(y, false, depth+1) {
				return true
			}
		case *ssa.Store:
			// kept in a local variable (range value): follow the cell
			if y.Val == v {
				if a, ok := y.Addr.(*ssa.Alloc); ok && reachesVisit(a, list, depth+1) {
					return true
				}
			}
		case ssa.CallInstruction:
			c := y.Common()
			callee, _ := c.Value.(*ssa.Function)
			if callee == nil {
				continue
			}
			for _, a := range c.Args {
				if a != v {
					continue
				}
				if !list && callee.Name() == "visit" {
					return true
				}
				if list && callee.Name() == "checkFunc" {
					return true
				}
			}
		}
	}
	return false
}

// thenCalls: "" if no return is reachable from a store to the field without passing a call of callee.
func thenCalls(fn *ssa.Function, field, callee string) string {
	callsIn := func(b *ssa.BasicBlock, from int) bool {
		for k := from; k < len(b.Instrs); k++ {
			if c, ok := b.Instrs[k].(ssa.CallInstruction); ok {
				if f, ok := c.Common().Value.(*ssa.Function); ok && f.Name() == callee {
					return true
				}
			}
		}
		return false
	}
	found := false
	for _, b := range fn.Blocks {
		for k, in := range b.Instrs {
			st, ok := in.(*ssa.Store)
			if !ok {
				continue
			}
			fa, ok := st.Addr.(*ssa.FieldAddr)
			if !ok {
				continue
			}
			pt, ok := fa.X.Type().Underlying().(*types.Pointer)
			if !ok {
				continue
			}
			stt, ok := pt.Elem().Underlying().(*types.Struct)
			if !ok || stt.Field(fa.Field).Name() != field {
				continue
			}
			found = true
			if callsIn(b, k+1) {
				continue
			}
			seen := map[*ssa.BasicBlock]bool{}
			var walk func(x *ssa.BasicBlock) bool
			walk = func(x *ssa.BasicBlock) bool {
				if seen[x] {
					return false
				}
				seen[x] = true
				if callsIn(x, 0) {
					return false
				}
				if len(x.Instrs) > 0 {
					if _, isRet := x.Instrs[len(x.Instrs)-1].(*ssa.Return); isRet {
						return true
					}
				}
				for _, s := range x.Succs {
					if walk(s) {
						return true
					}
				}
				return false
			}
			if _, isRet := b.Instrs[len(b.Instrs)-1].(*ssa.Return); isRet {
				return "returns right after assigning " + field + " without calling " + callee
			}
			for _, s := range b.Succs {
				if walk(s) {
					return "a return is reachable after the assignment of " + field + " without a call of " + callee
				}
			}
		}
	}
	if !found {
		return "no assignment of " + field + " found in " + strings.TrimPrefix(fn.String(), "(*github.com/antonmedv/expr/")
	}
	return ""
}

// genErrorAtChild (syntactic over SSA): `schema error-at-child <Field>` in the contract of a checker method
// declares that an error which names the type found for node.<Field> (the result of visit(node.<Field>) among the
// message arguments) is reported at node.<Field> itself - the offending occurrence - not at the enclosing node.
func genErrorAtChild(w *World, res *CheckResult) {
	for name, ct := range w.Contracts {
		for _, sc := range ct.Schemas {
			if len(sc) != 2 || sc[0] != "error-at-child" {
				continue
			}
			fn := w.Func(name)
			oname := fmt.Sprintf("%s/error-at-child[%s]", name, sc[1])
			if fn == nil || len(fn.Params) < 2 {
				res.Obls = append(res.Obls, missingObl(oname, "function not found"))
				continue
			}
			o := &Obligation{Name: oname, Kind: "post", Expect: "unsat", Backend: "syntactic", Func: fn.String(), Meta: map[string]string{}, Status: "discharged"}
			fieldOf := func(v ssa.Value) string {
				u, ok := v.(*ssa.UnOp)
				if !ok {
					return ""
				}
				fa, ok := u.X.(*ssa.FieldAddr)
				if !ok || fa.X != ssa.Value(fn.Params[1]) {
					return ""
				}
				return fa.X.Type().Underlying().(*types.Pointer).Elem().Underlying().(*types.Struct).Field(fa.Field).Name()
			}
			var unwrap func(v ssa.Value) ssa.Value
			unwrap = func(v ssa.Value) ssa.Value {
				switch y := v.(type) {
				case *ssa.ChangeInterface:
					return unwrap(y.X)
				case *ssa.MakeInterface:
					return unwrap(y.X)
				}
				return v
			}
			sites, bad := 0, ""
			for _, b := range fn.Blocks {
				for _, in := range b.Instrs {
					c, ok := in.(*ssa.Call)
					if !ok {
						continue
					}
					cf, ok := c.Call.Value.(*ssa.Function)
					if !ok || cf.Name() != "error" || len(c.Call.Args) < 4 {
						continue
					}
					// the variadic arguments: stores into the backing array of the slice
					sl, ok := c.Call.Args[3].(*ssa.Slice)
					if !ok {
						continue
					}
					al, ok := sl.X.(*ssa.Alloc)
					if !ok || al.Referrers() == nil {
						continue
					}
					names := false
					for _, r := range *al.Referrers() {
						ia, ok := r.(*ssa.IndexAddr)
						if !ok || ia.Referrers() == nil {
							continue
						}
						for _, rr := range *ia.Referrers() {
							st, ok := rr.(*ssa.Store)
							if !ok {
								continue
							}
							if vc, ok := unwrap(st.Val).(*ssa.Call); ok {
								if vf, ok := vc.Call.Value.(*ssa.Function); ok && vf.Name() == "visit" && len(vc.Call.Args) >= 2 && fieldOf(vc.Call.Args[1]) == sc[1] {
									names = true
								}
							}
						}
					}
					if !names {
						continue
					}
					sites++
					if fieldOf(unwrap(c.Call.Args[1])) != sc[1] {
						bad = "an error naming the type of node." + sc[1] + " is reported at another node"
					}
				}
			}
			switch {
			case bad != "":
				o.Status, o.Output = "undecided", bad
			case sites == 0:
				o.Status, o.Output = "undecided", "no error naming the type of node."+sc[1]+" found"
			default:
				o.Output = fmt.Sprintf("%d error site(s) naming the type of node.%s report at node.%s", sites, sc[1], sc[1])
			}
			res.Obls = append(res.Obls, o)
		}
	}
}
