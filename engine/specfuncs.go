package main

import (
	"go/types"
	"regexp"
	"strings"
)

// reflect.Type observers usable in contracts; they denote the same
// uninterpreted functions the library model (lib.go) uses for the methods.
func init() {
	rtT := func(env *SpecEnv) types.Type { return env.e.W.reflectType() }
	specFuncs["kind"] = func(env *SpecEnv, a []*Value) *Value {
		return &Value{T: types.Typ[types.Uint], L: []*Term{rtKind(a[0].One())}}
	}
	specFuncs["In"] = func(env *SpecEnv, a []*Value) *Value {
		return &Value{T: rtT(env), L: []*Term{UF("rt_In", SInt, a[0].One(), coerceInt(a[1], tInt).One())}}
	}
	specFuncs["Out"] = func(env *SpecEnv, a []*Value) *Value {
		return &Value{T: rtT(env), L: []*Term{UF("rt_Out", SInt, a[0].One(), coerceInt(a[1], tInt).One())}}
	}
	specFuncs["numin"] = func(env *SpecEnv, a []*Value) *Value {
		return &Value{T: tInt, L: []*Term{UF("rt_NumIn", SBV(64), a[0].One())}}
	}
	specFuncs["numout"] = func(env *SpecEnv, a []*Value) *Value {
		return &Value{T: tInt, L: []*Term{UF("rt_NumOut", SBV(64), a[0].One())}}
	}
	// struct fields of a reflect.Type as the engine models Type.Field(i): name, type, embedded flag
	specFuncs["numfield"] = func(env *SpecEnv, a []*Value) *Value {
		return &Value{T: tInt, L: []*Term{UF("rt_NumField", SBV(64), a[0].One())}}
	}
	specFuncs["fname"] = func(env *SpecEnv, a []*Value) *Value {
		return &Value{T: tString, L: []*Term{UF("rt_Field_00", SStr, a[0].One(), coerceInt(a[1], tInt).One())}}
	}
	specFuncs["ftype"] = func(env *SpecEnv, a []*Value) *Value {
		return &Value{T: env.e.W.reflectType(), L: []*Term{UF("rt_Field_02", SInt, a[0].One(), coerceInt(a[1], tInt).One())}}
	}
	specFuncs["fanon"] = func(env *SpecEnv, a []*Value) *Value {
		return &Value{T: tBool, L: []*Term{UF("rt_Field_08", SBool, a[0].One(), coerceInt(a[1], tInt).One())}}
	}
	specFuncs["assignable"] = func(env *SpecEnv, a []*Value) *Value {
		return &Value{T: tBool, L: []*Term{UF("rt_AssignableTo_00", SBool, a[0].One(), a[1].One())}}
	}
	specFuncs["impl"] = func(env *SpecEnv, a []*Value) *Value {
		return &Value{T: tBool, L: []*Term{UF("rt_Implements_00", SBool, a[0].One(), a[1].One())}}
	}
}

// expandMacros applies the contract's `define name(param) := body` macros textually.
func expandMacros(ct *Contract, s string) string {
	if ct == nil || len(ct.Defs) == 0 {
		return s
	}
	for iter := 0; iter < 8; iter++ {
		changed := false
		for _, d := range ct.Defs {
			for {
				i := strings.Index(s, d.Name+"(")
				if i < 0 || (i > 0 && isIdentByte(s[i-1])) {
					break
				}
				// matching paren
				depth, j := 0, i+len(d.Name)
				for ; j < len(s); j++ {
					if s[j] == '(' {
						depth++
					} else if s[j] == ')' {
						depth--
						if depth == 0 {
							break
						}
					}
				}
				arg := s[i+len(d.Name)+1 : j]
				body := regexp.MustCompile(`\b`+regexp.QuoteMeta(d.Param)+`\b`).ReplaceAllString(d.Body, "("+arg+")")
				s = s[:i] + "(" + body + ")" + s[j+1:]
				changed = true
			}
		}
		if !changed {
			break
		}
	}
	return s
}

func isIdentByte(b byte) bool {
	return b == '_' || b >= 'a' && b <= 'z' || b >= 'A' && b <= 'Z' || b >= '0' && b <= '9'
}

type MacroDef struct{ Name, Param, Body string }

func pureResultName(callee string, i int) string {
	return "pure_" + sanitize(callee) + "_r" + itoa(i)
}

// dynamic values in contracts
func init() {
	iface := types.NewInterfaceType(nil, nil)
	val := func(t *Term) *Value { return &Value{T: iface, L: []*Term{t}} }
	specFuncs["boolv"] = func(env *SpecEnv, a []*Value) *Value { return val(VCtor("VBool", a[0].One())) }
	specFuncs["intv"] = func(env *SpecEnv, a []*Value) *Value { return val(VCtor("VInt", coerceInt(a[0], tInt).One())) }
	specFuncs["strv"] = func(env *SpecEnv, a []*Value) *Value { return val(VCtor("VStr", a[0].One())) }
	specFuncs["nilv"] = func(env *SpecEnv, a []*Value) *Value { return val(VNil) }
	specFuncs["isint"] = func(env *SpecEnv, a []*Value) *Value { return &Value{T: tBool, L: []*Term{Is("VInt", a[0].One())}} }
	specFuncs["isbool"] = func(env *SpecEnv, a []*Value) *Value { return &Value{T: tBool, L: []*Term{Is("VBool", a[0].One())}} }
	specFuncs["isstr"] = func(env *SpecEnv, a []*Value) *Value { return &Value{T: tBool, L: []*Term{Is("VStr", a[0].One())}} }
	specFuncs["intof"] = func(env *SpecEnv, a []*Value) *Value { return &Value{T: tInt, L: []*Term{VSel("int_of", a[0].One())}} }
	specFuncs["boolof"] = func(env *SpecEnv, a []*Value) *Value { return &Value{T: tBool, L: []*Term{VSel("b_of", a[0].One())}} }
	specFuncs["strof"] = func(env *SpecEnv, a []*Value) *Value { return &Value{T: tString, L: []*Term{VSel("str_of", a[0].One())}} }
	// res("vm.add", a, b): the result of the pure function applied to these arguments
	specFuncs["res"] = func(env *SpecEnv, a []*Value) *Value {
		name := strLitText[a[0].One()]
		fn := env.e.W.Func(name)
		if fn == nil {
			panic("spec: res of unknown function " + name)
		}
		T := fn.Signature.Results().At(0).Type()
		var as []*Term
		for _, x := range a[1:] {
			as = append(as, x.L...)
		}
		return &Value{T: T, L: []*Term{UF(pureResultName(name, 0), leafSorts(T)[0], as...)}}
	}
	// boxed(x): a bool/int/string/float spec value as the dynamic value the VM pushes
	specFuncs["boxed"] = func(env *SpecEnv, a []*Value) *Value {
		if types.IsInterface(a[0].T) {
			return a[0]
		}
		return val(boxSimple(a[0].T, a[0].L))
	}
}

var _ = strings.TrimSpace

func init() {
	iface := types.NewInterfaceType(nil, nil)
	// lib("strings.Contains", a, b): the library function as the engine models it (uninterpreted, pure)
	specFuncs["lib"] = func(env *SpecEnv, a []*Value) *Value {
		name := strLitText[a[0].One()]
		var as []*Term
		for _, x := range a[1:] {
			as = append(as, x.L...)
		}
		switch name {
		case "regexp.MatchString":
			// (value, error) family of lib.go: the value component
			return &Value{T: tBool, L: []*Term{UF(sanitize(name)+"_v0", SBool, as...)}}
		}
		return &Value{T: tBool, L: []*Term{UF(sanitize(name)+"_r00", SBool, as...)}}
	}
	// typeof(v): reflect.TypeOf of an interface value; mname(t, k), mtype(t, k): Name and Type of t.Method(k)
	specFuncs["typeof"] = func(env *SpecEnv, a []*Value) *Value {
		return &Value{T: env.e.W.reflectType(), L: []*Term{rtypeOfVal(a[0].One())}}
	}
	specFuncs["mname"] = func(env *SpecEnv, a []*Value) *Value {
		return &Value{T: types.Typ[types.String], L: []*Term{UF("rt_Method_00", SStr, a[0].One(), a[1].One())}}
	}
	specFuncs["mtype"] = func(env *SpecEnv, a []*Value) *Value {
		return &Value{T: env.e.W.reflectType(), L: []*Term{UF("rt_Method_02", SInt, a[0].One(), a[1].One())}}
	}
	// rtype("int"): the reflect.Type of a predeclared type
	specFuncs["rtype"] = func(env *SpecEnv, a []*Value) *Value {
		name := strLitText[a[0].One()]
		tn, ok := types.Universe.Lookup(name).(*types.TypeName)
		if !ok {
			panic("spec: rtype of unknown predeclared type " + name)
		}
		return &Value{T: env.e.W.reflectType(), L: []*Term{typeCodeTerm(tn.Type())}}
	}
	// runes(s): the number of runes of a string (utf8.RuneCountInString as the engine models it)
	specFuncs["runes"] = func(env *SpecEnv, a []*Value) *Value {
		return &Value{T: tInt, L: []*Term{UF("unicode_utf8.RuneCountInString_r00", SBV(64), a[0].L...)}}
	}
	// ptrof(v): the pointer held by a dynamic value
	specFuncs["ptrof"] = func(env *SpecEnv, a []*Value) *Value {
		return &Value{T: nil, L: []*Term{VSel("ptr_of", a[0].One())}}
	}
	// vlen(v), velem(v, k): length and k-th element of a dynamic value that is a []interface{} / []int
	specFuncs["vlen"] = func(env *SpecEnv, a []*Value) *Value {
		return &Value{T: tInt, L: []*Term{VSel("sl_len", a[0].One())}}
	}
	specFuncs["velem"] = func(env *SpecEnv, a []*Value) *Value {
		loc := LocIndex(VSel("sl_ptr", a[0].One()), coerceInt(a[1], tInt).One())
		return &Value{T: iface, L: []*Term{env.st.Load(loc, SVal)}}
	}
	specFuncs["velemint"] = func(env *SpecEnv, a []*Value) *Value {
		loc := LocIndex(VSel("sl_ptr", a[0].One()), coerceInt(a[1], tInt).One())
		return &Value{T: tInt, L: []*Term{env.st.Load(loc, SBV(64))}}
	}
}

func init() {
	// base(s): the address of element 0 of a slice (raw location)
	specFuncs["base"] = func(env *SpecEnv, a []*Value) *Value {
		return &Value{T: nil, L: []*Term{a[0].L[0]}}
	}
}
