package main

import (
	"go/types"
	"regexp"
	"strings"
)

// reflect.Type observers usable in contracts; they denote the same
// uninterpreted functions the library model (lib.go) uses for the methods.
func init() {
	rtT := func(env *SpecEnv) types.Type { return env.e.W.reflectType() }
	specFuncs["kind"] = func(env *SpecEnv, a []*Value) *Value {
		return &Value{T: types.Typ[types.Uint], L: []*Term{rtKind(a[0].One())}}
	}
	specFuncs["In"] = func(env *SpecEnv, a []*Value) *Value {
		return &Value{T: rtT(env), L: []*Term{UF("rt_In", SInt, a[0].One(), coerceInt(a[1], tInt).One())}}
	}
	specFuncs["Out"] = func(env *SpecEnv, a []*Value) *Value {
		return &Value{T: rtT(env), L: []*Term{UF("rt_Out", SInt, a[0].One(), coerceInt(a[1], tInt).One())}}
	}
	specFuncs["numin"] = func(env *SpecEnv, a []*Value) *Value {
		return &Value{T: tInt, L: []*Term{UF("rt_NumIn", SBV(64), a[0].One())}}
	}
	specFuncs["numout"] = func(env *SpecEnv, a []*Value) *Value {
		return &Value{T: tInt, L: []*Term{UF("rt_NumOut", SBV(64), a[0].One())}}
	}
	specFuncs["impl"] = func(env *SpecEnv, a []*Value) *Value {
		return &Value{T: tBool, L: []*Term{UF("rt_Implements_00", SBool, a[0].One(), a[1].One())}}
	}
}

// expandMacros applies the contract's `define name(param) := body` macros textually.
func expandMacros(ct *Contract, s string) string {
	if ct == nil || len(ct.Defs) == 0 {
		return s
	}
	for iter := 0; iter < 8; iter++ {
		changed := false
		for _, d := range ct.Defs {
			for {
				i := strings.Index(s, d.Name+"(")
				if i < 0 || (i > 0 && isIdentByte(s[i-1])) {
					break
				}
				// matching paren
				depth, j := 0, i+len(d.Name)
				for ; j < len(s); j++ {
					if s[j] == '(' {
						depth++
					} else if s[j] == ')' {
						depth--
						if depth == 0 {
							break
						}
					}
				}
				arg := s[i+len(d.Name)+1 : j]
				body := regexp.MustCompile(`\b`+regexp.QuoteMeta(d.Param)+`\b`).ReplaceAllString(d.Body, "("+arg+")")
				s = s[:i] + "(" + body + ")" + s[j+1:]
				changed = true
			}
		}
		if !changed {
			break
		}
	}
	return s
}

func isIdentByte(b byte) bool {
	return b == '_' || b >= 'a' && b <= 'z' || b >= 'A' && b <= 'Z' || b >= '0' && b <= '9'
}

type MacroDef struct{ Name, Param, Body string }
