package main

// VM.Run under contract: prologue (C07), memory accounting with the ghost
// counter galloc (C06), write frame of the interpreter loop (C08/C09),
// result shape (C04).

import (
	"go/types"
	"regexp"
	"sort"
	"strings"

	"golang.org/x/tools/go/ssa"
)

type runGen struct {
	obls  []*Obligation
	notes []string
	funcs []string
}

var runGenCache *runGen

func genRun(w *World) *runGen {
	if runGenCache != nil {
		return runGenCache
	}
	e := NewExec(w)
	fn := w.Func("vm.VM.Run")
	ct := w.Contracts["vm.VM.Run"]
	g := &runGen{}
	if fn == nil || ct == nil {
		g.obls = append(g.obls, missingObl("vm.VM.Run/exists", "function or contract missing"))
		runGenCache = g
		return g
	}
	w.forceInline["vm.makeRange"] = true
	mainSpec := ct.Loops["0"]
	var runFrame *Frame
	labelOf := func(st *State, fr *Frame) string {
		if mainSpec == nil {
			return ""
		}
		env := &SpecEnv{e: e, st: st, vars: map[string]*Value{}, fn: fn, bound: map[string]*Value{}}
		for f := fr; f != nil; f = nil {
			if f.fn == fn {
				env.lookup = func(name string) *Value {
					for _, p := range fn.Params {
						if p.Name() == name {
							return f.vals[p]
						}
					}
					return nil
				}
			}
		}
		if runFrame != nil {
			if lt := labelTermOf(runFrame, mainSpec); lt != nil {
				return strings.Trim(e.pathLabel(st, runFrame, mainSpec, env), "[]")
			}
		}
		if env.lookup == nil {
			return ""
		}
		return strings.Trim(e.pathLabel(st, fr, mainSpec, env), "[]")
	}
	e.AllocHook = func(e *Exec, st *State, fr *Frame, in ssa.Instruction, n *Term) {
		if st.allocs == nil {
			return
		}
		name := shortName(fr.fn)
		if name != "vm.VM.Run" && name != "vm.makeRange" {
			return
		}
		switch in := in.(type) {
		case *ssa.MakeSlice:
			el := in.Type().Underlying().(*types.Slice).Elem()
			if !(types.IsInterface(el) && !isNamed(el, "reflect", "Type")) && !types.Identical(el, tInt) {
				return // not a language-level collection (e.g. []reflect.Value argument vectors)
			}
		case *ssa.MapUpdate:
			mt := in.Map.Type()
			if _, named := mt.(*types.Named); named {
				return // Scope maps are loop variables, not collections built by the expression
			}
		}
		if name == "vm.VM.Run" && runFrame != nil {
			lb := labelOf(st, fr)
			for _, c := range ct.Cases[lb] {
				if strings.HasPrefix(strings.TrimSpace(c.Expr), "exempt-alloc") {
					e.Note("exempt allocation in case %s: %s", lb, strings.TrimSpace(strings.TrimPrefix(strings.TrimSpace(c.Expr), "exempt-alloc")))
					return
				}
			}
		}
		st.allocs = BVBin("bvadd", st.allocs, n)
	}
	e.LoopHeadHook = func(e *Exec, st *State, fr *Frame, b *ssa.BasicBlock, env *SpecEnv) {
		if fr.fn == fn {
			runFrame = fr
		}
	}
	// a budget refusal is justified only if the elements needed reach the limit
	e.PanicHook = func(e *Exec, st *State, fr *Frame, in *ssa.Panic, pv *Term) {
		if fr.fn != fn || ctorOf(pv) != "VStr" || !strLits[pv.Args[0]] || strLitText[pv.Args[0]] != "memory budget exceeded" {
			return
		}
		env := &SpecEnv{e: e, st: st, old: fr.entryState, vars: map[string]*Value{}, fn: fn, bound: map[string]*Value{}}
		env.lookup = e.nameLookup(st, fr, in.Block())
		lb := labelOf(st, fr)
		expr := "galloc() >= vm.limit"
		for _, c := range ct.Cases[lb] {
			kw, _, ex := splitCaseClause(c.Expr)
			if kw == "on-budget-panic" {
				expr = ex
			}
		}
		e.AddVC("vm.VM.Run/loop:0["+lb+"]/post[refused-only-if-needed]", "post", fn.String(), st, Not(e.evalBool(expr, env)), expr)
	}
	// C07 (iii): re-slicing the VM's own arrays never reaches beyond len, so
	// stale slots left by earlier runs are never read
	e.SliceHook = func(e *Exec, st *State, fr *Frame, in *ssa.Slice, x *Value, lo, hi *Term) {
		if shortName(fr.fn) != "vm.VM.Run" && !strings.HasPrefix(shortName(fr.fn), "vm.VM.") {
			return
		}
		ld, ok := in.X.(*ssa.UnOp)
		if !ok {
			return
		}
		fa, ok := ld.X.(*ssa.FieldAddr)
		if !ok {
			return
		}
		stt, ok := fa.X.Type().Underlying().(*types.Pointer).Elem().Underlying().(*types.Struct)
		if !ok {
			return
		}
		fname := stt.Field(fa.Field).Name()
		if fname != "stack" && fname != "scopes" {
			return
		}
		inBounds := And(BVCmp("bvule", lo, hi), BVCmp("bvule", hi, x.L[2]))
		e.AddVC("vm.VM.Run/reslice-within-len["+fname+"]", "post", fn.String(), st, And(inBounds, Not(BVCmp("bvule", hi, x.L[1]))), "a re-slice that does not panic has high bound <= len ("+shortName(fr.fn)+")")
	}
	e.VerifyFunc(fn, ct, func(st *State, args []*Value, env *SpecEnv) {
		st.allocs = BV64(0)
	})
	e.obls = append(e.obls, vmFieldCoverage(w, fn, ct)...)
	g.obls = e.obls
	g.notes = e.Notes()
	g.funcs = []string{"vm.VM.Run", "vm.VM.push", "vm.VM.pop", "vm.VM.current", "vm.VM.arg", "vm.VM.constant", "vm.VM.Scope", "vm.makeRange", "vm.toInt"}
	for c := range e.usedContracts {
		g.funcs = append(g.funcs, c+" (by contract)")
	}
	runGenCache = g
	return g
}

// selectObls returns the obligations whose names match any of the patterns.
func selectObls(obls []*Obligation, pats ...string) []*Obligation {
	var res []*regexp.Regexp
	for _, p := range pats {
		res = append(res, regexp.MustCompile(p))
	}
	var out []*Obligation
	for _, o := range obls {
		for _, r := range res {
			if r.MatchString(o.Name) {
				out = append(out, o)
				break
			}
		}
	}
	return out
}

func init() {
	registerProp(&propDef{id: "T01", level: "proof", gen: func(w *World, res *CheckResult) {
		g := genRun(w)
		res.Obls = append(res.Obls, g.obls...)
		res.Assumptions = append(res.Assumptions, g.notes...)
		res.Functions = append(res.Functions, g.funcs...)
	}, expl: "all obligations of VM.Run (development view)"})
}

// vmFieldCoverage (C07 ii): every VM field read by Run or the VM methods it
// calls is pinned by an entry assertion of the interpreter loop, or belongs to
// the debugger (excluded by requires vm.debug == false).
func vmFieldCoverage(w *World, fn *ssa.Function, ct *Contract) []*Obligation {
	pinned := map[string]bool{}
	if ls := ct.Loops["0"]; ls != nil {
		re := regexp.MustCompile(`vm\.([A-Za-z_]+)`)
		for _, a := range ls.EntryAsserts {
			for _, m := range re.FindAllStringSubmatch(a.Expr, -1) {
				pinned[m[1]] = true
			}
		}
	}
	debugOnly := map[string]bool{"debug": true, "step": true, "curr": true}
	read := map[string]string{}
	seen := map[*ssa.Function]bool{}
	var scan func(f *ssa.Function)
	scan = func(f *ssa.Function) {
		if seen[f] || len(f.Blocks) == 0 {
			return
		}
		seen[f] = true
		for _, b := range f.Blocks {
			for _, in := range b.Instrs {
				switch in := in.(type) {
				case *ssa.FieldAddr:
					if p, ok := in.X.Type().Underlying().(*types.Pointer); ok {
						if n, ok := p.Elem().(*types.Named); ok && n.Obj().Name() == "VM" {
							st := n.Underlying().(*types.Struct)
							read[st.Field(in.Field).Name()] = shortName(f)
						}
					}
				case ssa.CallInstruction:
					if c, ok := in.Common().Value.(*ssa.Function); ok && strings.HasPrefix(shortName(c), "vm.VM.") {
						scan(c)
					}
					if mc, ok := in.Common().Value.(*ssa.MakeClosure); ok {
						scan(mc.Fn.(*ssa.Function))
					}
				}
			}
		}
		for _, a := range f.AnonFuncs {
			scan(a)
		}
	}
	scan(fn)
	var names []string
	for n := range read {
		names = append(names, n)
	}
	sort.Strings(names)
	var out []*Obligation
	for _, n := range names {
		o := &Obligation{Name: "vm.VM.Run/fields-reset[" + n + "]", Kind: "frame", Expect: "unsat", Func: fn.String(), Backend: "syntactic", Meta: map[string]string{}}
		switch {
		case pinned[n]:
			o.Status = "discharged"
			o.Output = "pinned by an entry assertion of the interpreter loop"
		case debugOnly[n]:
			o.Status = "discharged"
			o.Output = "debugger state, excluded by requires vm.debug == false"
		default:
			o.Status = "undecided"
			o.Output = "field vm." + n + " is used by " + read[n] + " but no entry assertion of the interpreter loop pins its value at the start of a run"
		}
		out = append(out, o)
	}
	return out
}

// genPure verifies the frame part of the thin call-site contracts: every vm
// function that VM.Run calls by a contract declared pure is itself checked
// to write nothing that existed before the call.
var pureGenCache []*Obligation

func genPure(w *World) []*Obligation {
	var out []*Obligation
	for _, o := range genPureAll(w) {
		if strings.HasSuffix(o.Name, "/frame:pure") || strings.HasSuffix(o.Name, "/pre-sat") {
			out = append(out, o)
		}
	}
	return out
}

// genPureAll: every obligation of the vm helpers under a `pure` contract
// (frame, vacuity guards, and the ensures clauses where the contract has any).
func genPureAll(w *World) []*Obligation {
	if pureGenCache != nil {
		return pureGenCache
	}
	var names []string
	for n, c := range w.Contracts {
		if c.Pure && strings.HasPrefix(n, "vm.") {
			names = append(names, n)
		}
	}
	sort.Strings(names)
	saved := map[string]bool{}
	for k, v := range w.forceInline {
		saved[k] = v
	}
	var out []*Obligation
	for _, n := range names {
		fn := w.Func(n)
		if fn == nil {
			out = append(out, missingObl(n+"/frame:pure", "function not found"))
			continue
		}
		e := NewExec(w)
		e.maxSteps = 400000
		// the function under check is executed; its callees keep their contracts
		w.forceInline[n] = true
		e.VerifyFunc(fn, w.Contracts[n], nil)
		delete(w.forceInline, n)
		out = append(out, e.obls...)
	}
	for k := range w.forceInline {
		if !saved[k] {
			delete(w.forceInline, k)
		}
	}
	pureGenCache = out
	return out
}

func regProp(id, level, expl string, pats []string, extra func(w *World, res *CheckResult)) {
	registerProp(&propDef{id: id, level: level, expl: expl, replay: vmReplay, gen: func(w *World, res *CheckResult) {
		g := genRun(w)
		res.Obls = append(res.Obls, selectObls(g.obls, pats...)...)
		res.Assumptions = append(res.Assumptions, g.notes...)
		res.Functions = append(res.Functions, g.funcs...)
		if extra != nil {
			extra(w, res)
		}
	}})
}

func init() {
	regProp("C07", "proof", "VM.Run's prologue, executed from an arbitrary VM state (any history of earlier runs), establishes the fresh state at the first entry of the interpreter loop (ip, pp, empty stack and scopes, memory 0, limit, bytecode, constants); every VM field the run reads is pinned by these assertions; re-slicing of the VM's arrays never reaches beyond len (stale slots unreadable)",
		[]string{`^vm\.VM\.Run/loop:0/entry\[`, `^vm\.VM\.Run/fields-reset`, `reslice-within-len`, `^vm\.VM\.Run/pre-sat$`, `^vm\.VM\.Run/loop:0/inv-sat$`}, nil)
	regProp("C06", "proof", "ghost counter galloc (collection elements created by this run, incremented by the engine at every MakeSlice/MapUpdate of a language-level collection in VM.Run and makeRange) is tied to vm.memory by the loop invariant memory == galloc < limit for every opcode case; a budget refusal is justified only when the elements needed reach the limit; makeRange creates exactly max(0, max-min+1) elements",
		[]string{`inv-(init|pres)\[(galloc|budget|mem-lo|static|count|pops|i)\]`, `refused-only-if-needed`, `^vm\.makeRange/`, `^vm\.VM\.Run/pre-sat$`, `inv-sat$`, `/cover$`}, func(w *World, res *CheckResult) {
			// the assumption "compiled programs hand OpArray / OpMap a non-negative size" is discharged on the compiler's templates
			obls, _ := templateObls(w, func(n string) bool { return strings.HasSuffix(n, "/size-nonneg") })
			res.Obls = append(res.Obls, obls...)
			res.Functions = append(res.Functions, "compiler.compiler.ArrayNode", "compiler.compiler.MapNode")
			// a literal range is precomputed (and so never meets the budget) only up to 1e6 elements, and is what makeRange would build
			tmp := &CheckResult{}
			genConstRange(w, tmp)
			res.Obls = append(res.Obls, selectObls(tmp.Obls, `^optimizer\.constRange/post:(content|skips-only-large)$`, `^optimizer\.constRange\.Exit/loop:`)...)
		})
	pureExtra := func(w *World, res *CheckResult) {
		res.Obls = append(res.Obls, genPure(w)...)
		genBindFrame(w, res)
		// compile side of C08: no package-level state in the library (shared with C09)
		tmp := &CheckResult{}
		genC09(w, tmp)
		res.Obls = append(res.Obls, selectObls(tmp.Obls, `^module/effects:no-package-level-state$`, `^module/effects:no-state-captured-by-escaping-closure$`)...)
	}
	regProp("C08", "proof", "write frame of the interpreter loop: for every opcode case (completed iterations and iterations that fail midway) every memory cell of an object that existed before the run, other than the VM value and its private stack/scopes arrays, is unchanged; scope maps written by OpStore/OpInc are created by this run",
		[]string{`/frame$`, `/frame-at-panic$`, `/env-call:args-not-owned$`, `inv-(init|pres)\[(stack-own|scopes-own|scopes-fresh|prog|stack)\]`, `^vm\.VM\.Run/pre-sat$`, `inv-sat$`}, pureExtra)
}
