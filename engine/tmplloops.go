package main

// Layer B, collection builtins (C18): the emission traces of BuiltinNode that
// contain a loop are executed on an abstract VM with a symbolic stack
// (array S, height h) and the innermost scope's variables; the loop is cut
// by the semantic invariant given for the builtin in the contract of
// compiler.BuiltinNode (`case <name>: sem-inv ...`), and the value left on
// the stack is compared with the builtin's defining formula (`sem-result`)
// over the spec functions
//   n            length of the collection (vm.length of its value)
//   elem(k)      its k-th element (vm.fetch(xs, k, false): what OpIndex yields)
//   f(k)         value of the closure body when the innermost scope has i = k
//   p(k)         boolof(f(k))
//   cnt(k)       number of j < k with p(j)   (recursive definition, axiomatised)
//   st(j)        stack entry j; h, h0 current and entry height
//   alen(a), aelem(a, j)  length and elements of an array value built by OpArray
// The closure body is a child segment: by the compile contract it pushes
// f(i) for the innermost scope's (array, i) and changes nothing else.

import (
	"fmt"
	"strings"
)

type lState struct {
	S      *Term
	hb     *Term
	off    int64
	scopes []map[string]*Term
	extra  []*Term
}

func (l *lState) clone() *lState {
	n := &lState{S: l.S, hb: l.hb, off: l.off, extra: append([]*Term(nil), l.extra...)}
	for _, s := range l.scopes {
		m := map[string]*Term{}
		for k, v := range s {
			m[k] = v
		}
		n.scopes = append(n.scopes, m)
	}
	return n
}
func (l *lState) h() *Term { return l.at(0) }
func (l *lState) at(d int64) *Term {
	if l.off+d == 0 {
		return l.hb
	}
	return BVBin("bvadd", l.hb, BV64(l.off+d))
}
func (l *lState) push(v *Term) { l.S = Store(l.S, l.h(), v); l.off++ }
func (l *lState) pop() *Term   { l.off--; return Select(l.S, l.h()) }
func (l *lState) top(k int64) *Term { return Select(l.S, l.at(-k)) }
func (l *lState) scope() map[string]*Term {
	if len(l.scopes) == 0 {
		l.scopes = append(l.scopes, map[string]*Term{})
	}
	return l.scopes[len(l.scopes)-1]
}
func (l *lState) scopeVar(name string) *Term {
	s := l.scope()
	if v, ok := s[name]; ok {
		return v
	}
	v := Fresh("scope_"+sanitize(name), SVal)
	s[name] = v
	return v
}

// semCtx: what the spec functions of the sem-inv / sem-result clauses denote.
type semCtxT struct {
	xs, closure *Term
	n           *Term
	cur         *lState
	h0          *Term
}

var semCtx *semCtxT

func semElem(k *Term) *Term { return pureRes("vm.fetch", SVal, semCtx.xs, VCtor("VInt", k), False) }
func semF(k *Term) *Term    { return UF("evc", SVal, semCtx.closure, semCtx.xs, VCtor("VInt", k)) }
func semP(k *Term) *Term    { return VSel("b_of", semF(k)) }
func semCnt(k *Term) *Term  { return UF("cnt", SBV(64), semCtx.closure, semCtx.xs, k) }

func init() {
	one := func(t *Term, T interface{}) *Value { return &Value{T: tInt, L: []*Term{t}} }
	_ = one
	specFuncs["elem"] = func(env *SpecEnv, a []*Value) *Value {
		return &Value{T: tIfaceAny, L: []*Term{semElem(coerceInt(a[0], tInt).One())}}
	}
	specFuncs["f"] = func(env *SpecEnv, a []*Value) *Value {
		return &Value{T: tIfaceAny, L: []*Term{semF(coerceInt(a[0], tInt).One())}}
	}
	specFuncs["p"] = func(env *SpecEnv, a []*Value) *Value {
		return &Value{T: tBool, L: []*Term{semP(coerceInt(a[0], tInt).One())}}
	}
	specFuncs["cnt"] = func(env *SpecEnv, a []*Value) *Value {
		return &Value{T: tInt, L: []*Term{semCnt(coerceInt(a[0], tInt).One())}}
	}
	specFuncs["st"] = func(env *SpecEnv, a []*Value) *Value {
		return &Value{T: tIfaceAny, L: []*Term{Select(semCtx.cur.S, coerceInt(a[0], tInt).One())}}
	}
	specFuncs["alen"] = func(env *SpecEnv, a []*Value) *Value {
		return &Value{T: tInt, L: []*Term{UF("alen", SBV(64), a[0].One())}}
	}
	specFuncs["aelem"] = func(env *SpecEnv, a []*Value) *Value {
		return &Value{T: tIfaceAny, L: []*Term{UF("aelem", SVal, a[0].One(), coerceInt(a[1], tInt).One())}}
	}
}

func semEval(e *Exec, st *State, text string, l *lState, r *Term) *Term {
	semCtx.cur = l
	binds := map[string]*Value{
		"h":  {T: tInt, L: []*Term{l.h()}},
		"h0": {T: tInt, L: []*Term{semCtx.h0}},
		"n":  {T: tInt, L: []*Term{semCtx.n}},
	}
	if len(l.scopes) > 0 {
		for name, v := range l.scope() {
			if name == "i" || name == "count" || name == "size" {
				binds[name] = &Value{T: tInt, L: []*Term{VSel("int_of", v)}}
			}
		}
	}
	if r != nil {
		binds["r"] = &Value{T: tIfaceAny, L: []*Term{r}}
	}
	env := &SpecEnv{e: e, st: st, lookup: func(name string) *Value { return binds[name] }, bound: map[string]*Value{}, vars: map[string]*Value{}}
	return env.eval(parseSpec(text)).One()
}

func builtinClauses(w *World, label, kw string) []string {
	var out []string
	ct := w.Contracts["compiler.compiler.BuiltinNode"]
	if ct == nil {
		return nil
	}
	for _, c := range ct.Cases[label] {
		k, _, ex := splitCaseClause(c.Expr)
		if k == kw {
			out = append(out, strings.TrimSpace(ex))
		}
	}
	return out
}

func checkBuiltinLoops(w *World, e *Exec, traces []*tTrace) {
	eff := opEffects(w)
	sem := opValueClauses(w, "value")
	for _, tr := range traces {
		if tr.Panics || tr.Failed != "" || tr.Method != "BuiltinNode" {
			continue
		}
		label := traceLabel(tr)
		name := traceName(tr, label)
		items := tr.Items
		back := -1
		for i, it := range items {
			if it.Kind == "emit" && it.Operand == "back" {
				back = i
			}
		}
		if back < 0 {
			continue
		}
		head := -1
		for j := range items {
			if items[j].Kind != "patch" && items[j].Pos == items[back].To {
				head = j
				break
			}
		}
		invs := builtinClauses(w, label, "sem-inv")
		results := builtinClauses(w, label, "sem-result")
		st := tr.St
		add := func(clause string, extra []*Term, goal *Term, desc string) {
			s2 := st.Clone()
			for _, x := range extra {
				s2.Assume(x)
			}
			assumePureEnsures(e, s2, goal)
			for _, x := range extra {
				assumePureEnsures(e, s2, x)
			}
			e.AddVC(name+"/"+clause, "tmpl", "compiler."+tr.Method, s2, Not(goal), desc+" [emission path "+tr.Sig+"]")
		}
		if head < 0 || len(invs) == 0 || len(results) == 0 {
			add("sem-result", nil, False, "the loop head or the builtin's sem-inv / sem-result clauses are missing")
			continue
		}
		patchOf := map[int]int{}
		for i, it := range items {
			if it.Kind == "patch" {
				patchOf[it.Ref] = i
			}
		}
		lay := astLayout{w}
		argsLoc := st.Load(LocField(tr.Node, lay.off("BuiltinNode", "Arguments")), SLoc)
		arg := func(k int64) *Term { return st.Load(LocIndex(argsLoc, BV64(k)), SVal) }
		h0 := Fresh("h0", SBV(64))
		S0 := Fresh("S0", SArr(SBV(64), SVal))
		ctx := &semCtxT{xs: evOf(arg(0)), closure: arg(1), h0: h0}
		ctx.n = pureRes("vm.length", SBV(64), ctx.xs)
		semCtx = ctx
		k := BoundVar(fmt.Sprintf("ck%d", freshSeqNext()), SBV(64))
		base := []*Term{
			BVCmp("bvsge", h0, BV64(0)), BVCmp("bvslt", h0, BV64(1<<40)),
			BVCmp("bvsge", ctx.n, BV64(0)), BVCmp("bvslt", ctx.n, BV64(1<<40)),
			// cnt: recursive definition
			Eq(semCnt(BV64(0)), BV64(0)),
			Forall([]*Term{k}, Implies(And(BVCmp("bvsge", k, BV64(0)), BVCmp("bvslt", k, BV64(1<<40))),
				Eq(semCnt(BVBin("bvadd", k, BV64(1))), BVBin("bvadd", semCnt(k), Ite(semP(k), BV64(1), BV64(0)))))),
		}
		below := func(l *lState) *Term {
			j := BoundVar(fmt.Sprintf("bj%d", freshSeqNext()), SBV(64))
			return Forall([]*Term{j}, Implies(And(BVCmp("bvsge", j, BV64(0)), BVCmp("bvslt", j, h0)), Eq(Select(l.S, j), Select(S0, j))))
		}
		invOf := func(l *lState) []*Term {
			out := []*Term{below(l),
				Eq(l.scopeVar("array"), ctx.xs), Eq(l.scopeVar("size"), VCtor("VInt", ctx.n)),
				Is("VInt", l.scopeVar("i")), BVCmp("bvsge", VSel("int_of", l.scopeVar("i")), BV64(0)), BVCmp("bvsle", VSel("int_of", l.scopeVar("i")), ctx.n)}
			if _, ok := l.scope()["count"]; ok {
				out = append(out, Is("VInt", l.scopeVar("count")))
			}
			for _, iv := range invs {
				out = append(out, semEval(e, st, iv, l, nil))
			}
			return out
		}
		nseg := 0
		var run func(i int, l *lState, inBody bool, fuel int)
		run = func(i int, l *lState, inBody bool, fuel int) {
			for ; i < len(items); i++ {
				if fuel--; fuel <= 0 {
					return
				}
				it := items[i]
				if i == head && !inBody {
					// loop entry: the invariant holds, then an arbitrary iteration
					add("sem-inv-init", l.extra, And(invOf(l)...), "the builtin's loop invariant holds when the loop is entered")
					hv := l.clone()
					hv.S = Fresh("Sl", SArr(SBV(64), SVal))
					hv.hb, hv.off = Fresh("hl", SBV(64)), 0
					for j := head; j <= back; j++ {
						if items[j].Kind == "emit" && (items[j].OpName == "OpInc" || items[j].OpName == "OpStore") && items[j].Const != nil {
							nm := strLitText[items[j].Const.Args[0]]
							hv.scope()[nm] = Fresh("loop_"+sanitize(nm), SVal)
						}
					}
					hv.extra = append(hv.extra, invOf(hv)...)
					run(i, hv, true, fuel)
					return
				}
				switch it.Kind {
				case "patch":
					continue
				case "seg":
					if nseg == 0 && !inBody {
						// the collection operand belongs to the enclosing expression: it is evaluated before the builtin
						// opens its scope (inside, # and the loop variables would be the builtin's own)
						if len(l.scopes) != 0 {
							add("sem-scope", l.extra, False, "the collection operand is evaluated outside the builtin's own scope")
						} else {
							add("sem-scope", l.extra, True, "the collection operand is evaluated outside the builtin's own scope")
						}
						l.push(ctx.xs)
						nseg++
					} else {
						if len(l.scopes) != 1 {
							add("sem-scope", l.extra, False, "the closure body runs in exactly the builtin's scope")
						}
						// the closure body, run in the innermost scope
						l.push(UF("evc", SVal, it.Child, l.scopeVar("array"), l.scopeVar("i")))
						l.extra = append(l.extra, Eq(it.Child, ctx.closure))
					}
					continue
				}
				ef := eff[it.OpName]
				cname := ""
				if it.Const != nil && ctorOf(it.Const) == "VStr" {
					cname = strLitText[it.Const.Args[0]]
				}
				switch it.OpName {
				case "OpJump":
					i = patchOf[i]
				case "OpJumpBackward":
					add("sem-inv-pres", l.extra, And(invOf(l)...), "the builtin's loop invariant is preserved by an iteration")
					return
				case "OpJumpIfTrue", "OpJumpIfFalse":
					t := l.top(1)
					// normal completion of the instruction means the operand is a bool cell (operand-type clause of VM.Run)
					l.extra = append(l.extra, Is("VBool", t))
					c := VSel("b_of", t)
					if it.OpName == "OpJumpIfFalse" {
						c = Not(c)
					}
					b := l.clone()
					b.extra = append(b.extra, c)
					l.extra = append(l.extra, Not(c))
					run(patchOf[i]+1, b, inBody, fuel)
				case "OpBegin":
					l.scopes = append(l.scopes, map[string]*Term{})
				case "OpEnd":
					if len(l.scopes) > 0 {
						l.scopes = l.scopes[:len(l.scopes)-1]
					}
				case "OpStore":
					l.scope()[cname] = l.pop()
				case "OpLoad":
					l.push(l.scopeVar(cname))
				case "OpInc":
					l.scope()[cname] = VCtor("VInt", BVBin("bvadd", VSel("int_of", l.scopeVar(cname)), BV64(1)))
				case "OpPop":
					l.pop()
				case "OpArray":
					nv := l.pop()
					cntv := VSel("int_of", nv)
					a := Fresh("arr", SVal)
					j := BoundVar(fmt.Sprintf("aj%d", freshSeqNext()), SBV(64))
					newh := BVBin("bvsub", l.h(), cntv)
					l.extra = append(l.extra, Eq(UF("alen", SBV(64), a), cntv),
						Forall([]*Term{j}, Implies(And(BVCmp("bvsge", j, BV64(0)), BVCmp("bvslt", j, cntv)), Eq(UF("aelem", SVal, a, j), Select(l.S, BVBin("bvadd", newh, j))))))
					l.hb, l.off = newh, 0
					l.push(a)
				default:
					if ef == nil {
						add("sem-result", l.extra, False, "no stack effect known for "+it.OpName)
						return
					}
					v := &vState{}
					for d := int64(3); d >= 1; d-- {
						v.stack = append(v.stack, l.top(d))
					}
					if !applyValueClause(e, st, sem[it.OpName], ef, v, &it) {
						add("sem-result", l.extra, False, "the value semantics of "+it.OpName+" is not available")
						return
					}
					nl := int64(len(v.stack))
					l.off -= 3
					for d := int64(0); d < nl; d++ {
						if d >= nl-int64(ef.pushes) {
							l.S = Store(l.S, l.at(d), v.stack[d])
						}
					}
					l.off += nl
				}
			}
			// end of the segment
			l.off--
			r := Select(l.S, l.h())
			l.off++
			// vacuity guard: the assumptions collected on this path (quantifier-free part) are satisfiable
			cn := name + "/sem-cover"
			co := e.oblIdx[cn]
			if co == nil {
				co = &Obligation{Name: cn, Kind: "cover", Expect: "sat", Func: "compiler.BuiltinNode", Meta: map[string]string{}}
				e.oblIdx[cn] = co
				e.obls = append(e.obls, co)
			}
			if len(co.VCs) < 4 {
				as := []*Term{True}
				for _, p := range append(append([]*Term(nil), st.pc...), l.extra...) {
					if p.Op != "forall" && p.Op != "exists" && !p.Bound {
						as = append(as, p)
					}
				}
				co.VCs = append(co.VCs, &VC{Asserts: as, Seq: nextVCSeq()})
			}
			if len(l.scopes) != 0 {
				add("sem-scope", l.extra, False, "every path closes the scope the builtin opened")
			} else {
				add("sem-scope", l.extra, True, "every path closes the scope the builtin opened")
			}
			goal := []*Term{Eq(l.h(), BVBin("bvadd", h0, BV64(1))), below(l)}
			add("sem-stack", l.extra, And(goal...), "the builtin leaves exactly one value and nothing else on the stack is changed")
			var rs []*Term
			for _, rt := range results {
				rs = append(rs, semEval(e, st, rt, l, r))
			}
			l.extra = append(l.extra, Eq(l.h(), BVBin("bvadd", h0, BV64(1))))
			add("sem-result", l.extra, And(rs...), "the value left is the builtin's defining formula over the collection and the predicate / mapper")
		}
		l0 := &lState{S: S0, hb: h0, extra: append([]*Term(nil), base...)}
		run(0, l0, false, 4000)
	}
	checkPointerNode(w, e, traces, eff, sem)
	builtinIdentities(w, e)
}

// checkPointerNode: `#` is the element of the innermost collection: the value
// pushed is fetch(array, i) of the innermost scope, whatever the outer scopes hold.
func checkPointerNode(w *World, e *Exec, traces []*tTrace, eff map[string]*opEffect, sem map[string]string) {
	for _, tr := range traces {
		if tr.Panics || tr.Failed != "" || tr.Method != "PointerNode" {
			continue
		}
		name := traceName(tr, "")
		arr, idx := Fresh("inner_array", SVal), Fresh("inner_i", SVal)
		l := &lState{S: Fresh("S0", SArr(SBV(64), SVal)), hb: Fresh("h0", SBV(64))}
		l.scopes = []map[string]*Term{{"array": Fresh("outer_array", SVal), "i": Fresh("outer_i", SVal)}, {"array": arr, "i": idx}}
		h0 := l.hb
		okRun := true
		for _, it := range tr.Items {
			if it.Kind != "emit" {
				okRun = false
				break
			}
			cname := ""
			if it.Const != nil && ctorOf(it.Const) == "VStr" {
				cname = strLitText[it.Const.Args[0]]
			}
			switch it.OpName {
			case "OpLoad":
				l.push(l.scopeVar(cname))
			default:
				ef := eff[it.OpName]
				v := &vState{}
				for d := int64(3); d >= 1; d-- {
					v.stack = append(v.stack, l.top(d))
				}
				it2 := it
				if ef == nil || !applyValueClause(e, tr.St, sem[it.OpName], ef, v, &it2) {
					okRun = false
					break
				}
				nl := int64(len(v.stack))
				l.off -= 3
				for d := int64(0); d < nl; d++ {
					if d >= nl-int64(ef.pushes) {
						l.S = Store(l.S, l.at(d), v.stack[d])
					}
				}
				l.off += nl
			}
		}
		goal := False
		if okRun {
			goal = And(Eq(l.h(), BVBin("bvadd", h0, BV64(1))), Eq(Select(l.S, h0), pureRes("vm.fetch", SVal, arr, idx, False)))
		}
		e.AddVC(name+"/value", "tmpl", "compiler.PointerNode", tr.St.Clone(), Not(goal), "# pushes the element array[i] of the innermost scope [emission path "+tr.Sig+"]")
	}
}

// builtinIdentities: the identities of C18 as lemmas over the sem-result
// formulas of the contract (each builtin applied to the same collection;
// predicates related as the identity says).
func builtinIdentities(w *World, e *Exec) {
	// generic predicate p over indices 0..n-1
	n := Fresh("idn", SBV(64))
	p := func(k *Term) *Term { return UF("idp", SBool, k) }
	rng := func(k *Term) *Term { return And(BVCmp("bvsge", k, BV64(0)), BVCmp("bvslt", k, n)) }
	k1 := BoundVar("ik1", SBV(64))
	k2 := BoundVar("ik2", SBV(64))
	all := func(q func(*Term) *Term) *Term { return Forall([]*Term{k1}, Implies(rng(k1), q(k1))) }
	any := func(q func(*Term) *Term) *Term { return Exists([]*Term{k2}, And(rng(k2), q(k2))) }
	notp := func(k *Term) *Term { return Not(p(k)) }
	st := NewState()
	st.Assume(BVCmp("bvsge", n, BV64(0)))
	lem := func(name string, goal *Term, desc string) {
		e.AddVC("lemma:"+name, "lemma", "compiler.BuiltinNode", st.Clone(), Not(goal), desc)
	}
	lem("all=not-any-not", Eq(all(p), Not(any(notp))), "all(xs, p) = not any(xs, not p), over the sem-result formulas forall / exists")
	lem("none=not-any", Eq(all(notp), Not(any(p))), "none(xs, p) = not any(xs, p)")
	// one = (count = 1), count = len(filter), len(map) = len(xs) are syntactic identities of the sem-result clauses:
	for _, pair := range [][3]string{{"one", "count", "one=(count=1)"}, {"filter", "count", "count=len(filter)"}, {"map", "", "len(map)=len(xs)"}} {
		a := strings.Join(builtinClauses(w, pair[0], "sem-result"), " && ")
		b := strings.Join(builtinClauses(w, pair[1], "sem-result"), " && ")
		ok := false
		switch pair[2] {
		case "one=(count=1)":
			ok = strings.Contains(a, "boolv(cnt(n) == 1)") && strings.Contains(b, "intv(cnt(n))")
		case "count=len(filter)":
			ok = strings.Contains(a, "alen(r) == cnt(n)") && strings.Contains(b, "intv(cnt(n))")
		case "len(map)=len(xs)":
			ok = strings.Contains(a, "alen(r) == n")
		}
		g := False
		if ok {
			g = True
		}
		lem(pair[2], g, "follows from the sem-result clauses: "+a+" / "+b)
	}
}
