package main

// C10 — AST traversal reaches every node exactly once.
// ast.(*walker).walk is executed symbolically once per node kind (the kinds
// are enumerated from the type declarations of package ast with go/types,
// independently of walk's hand-written switch). A ghost event sequence records
// Enter / recursive walk (with the exact slot address) / Exit; the sequence is
// compared with the one prescribed by the struct declaration. Range loops are
// handled by a schematic induction generated here (base: nothing emitted, step:
// one iteration emits exactly walk(&slice[i]), exit: i == len).

import (
	"fmt"
	"go/types"
	"os"
	"sort"
	"strings"

	"golang.org/x/tools/go/ssa"
)

const (
	evENTER = 1
	evEXIT  = 2
	evWALK  = 3
	evREP   = 4
)

func mkEv(kind int, a *Term) *Term {
	return Ctor("mkev", SEv, IntLit(int64(kind)), a, VNil)
}
func evSnoc(s, ev *Term) *Term { return Ctor("evsnoc", SEvs, s, ev) }

var evNil = Ctor("evnil", SEvs)

// optional child slots (the parser leaves them nil): taken from the grammar
var optionalSlots = map[string]bool{"SliceNode.From": true, "SliceNode.To": true}

// resolveInvoke: an interface method call whose receiver has a statically
// known dynamic type is resolved to the concrete method and executed.
func (e *Exec) resolveInvoke(st *State, fr *Frame, cc *ssa.CallCommon, recv *Value, args []*Value, k func(*State, []*Value)) bool {
	v := recv.One()
	if ctorOf(v) != "VPtr" || v.Args[0].IntV == nil {
		// getters of a syntax node of unknown kind: pure observers of the node
		if strings.HasSuffix(cc.Value.Type().String(), "ast.Node") {
			switch cc.Method.Name() {
			case "Type":
				k(st, []*Value{{T: cc.Signature().Results().At(0).Type(), L: []*Term{UF("node_type", SInt, v)}}})
				return true
			case "Location":
				k(st, []*Value{{T: cc.Signature().Results().At(0).Type(), L: []*Term{UF("node_line", SBV(64), v), UF("node_col", SBV(64), v)}}})
				return true
			}
		}
		return false
	}
	T, ok := typeByCode[int(v.Args[0].IntV.Int64())]
	if !ok {
		return false
	}
	sel := e.W.Prog.MethodSets.MethodSet(T).Lookup(cc.Method.Pkg(), cc.Method.Name())
	if sel == nil {
		return false
	}
	fn := e.W.Prog.MethodValue(sel)
	if fn == nil || len(fn.Blocks) == 0 || !e.inModule(fn) {
		if traceOn {
			fmt.Fprintf(os.Stderr, "trace: resolveInvoke %s.%s failed: fn=%v blocks=%d\n", T, cc.Method.Name(), fn != nil, func() int { if fn == nil { return -1 }; return len(fn.Blocks) }())
		}
		return false
	}
	rv := &Value{T: T, L: []*Term{v.Args[1]}}
	kp := func(st *State, pv *Term) { e.doPanic(st, fr.Clone(), pv) }
	e.call(st, fn, append([]*Value{rv}, args...), nil, fr.depth+1, e.W.Contracts[shortName(fn)], k, kp)
	return true
}

type nodeKind struct {
	name string
	T    *types.Named
	st   *types.Struct
}

func astNodeKinds(w *World) ([]nodeKind, types.Type) {
	sp := w.SSAPkgs["ast"]
	if sp == nil {
		return nil, nil
	}
	nodeT := sp.Pkg.Scope().Lookup("Node").Type()
	iface := nodeT.Underlying().(*types.Interface)
	var out []nodeKind
	for _, n := range sp.Pkg.Scope().Names() {
		tn, ok := sp.Pkg.Scope().Lookup(n).(*types.TypeName)
		if !ok {
			continue
		}
		named, ok := tn.Type().(*types.Named)
		if !ok {
			continue
		}
		st, ok := named.Underlying().(*types.Struct)
		if !ok || !tn.Exported() {
			continue
		}
		if types.Implements(types.NewPointer(named), iface) {
			out = append(out, nodeKind{n, named, st})
		}
	}
	sort.Slice(out, func(i, j int) bool { return out[i].name < out[j].name })
	return out, nodeT
}

func genC10(w *World, res *CheckResult) {
	genRewritesThroughPatch(w, res)
	kinds, nodeT := astNodeKinds(w)
	walk := w.Func("ast.walker.walk")
	if walk == nil || len(kinds) == 0 {
		res.Obls = append(res.Obls, missingObl("ast.walker.walk/exists", "function or node kinds not found"))
		return
	}
	res.Functions = append(res.Functions, "ast.walker.walk", "ast.Walk", "ast.Patch")
	e := NewExec(w)
	e.SafeMode = func(fn *ssa.Function) string { return "panics" }
	var curN *Term    // pointer to the node struct being walked (after Enter)
	var curKind nodeKind
	var nodeParam *Term
	havocKeep := func(st *State, keep func(l *Term) *Term) {
		// every memory array becomes fresh; cells selected by keep(l) are unchanged
		var keys []string
		for k := range st.mem {
			keys = append(keys, k)
		}
		sort.Strings(keys)
		for _, k := range keys {
			old := st.mem[k]
			nw := Fresh("Mw_"+sortKey(k), old.Sort)
			if keep != nil {
				ks, _ := arrSorts(old.Sort)
				l := BoundVar("wl"+itoa(freshSeqNext()), ks)
				st.AddQFact(nw, &qfact{v: l, guard: keep(l), lhs: Select(nw, l), rhs: Select(old, l)})
			}
			st.mem[k] = nw
		}
		w0 := st.water
		st.water = FreshWater("Ww")
		st.pc = append(st.pc, App(">=", SBool, st.water, w0))
	}
	ensureMems := func(st *State) {
		for _, s := range []string{SVal, SLoc, SBV(64), SInt, SBool, SStr} {
			st.Mem(s)
		}
	}
	e.InvokeHook = func(e *Exec, st *State, fr *Frame, cc *ssa.CallCommon, recv *Value, args []*Value, k func(*State, []*Value)) bool {
		if shortName(fr.fn) != "ast.walker.walk" {
			return false
		}
		switch cc.Method.Name() {
		case "Enter":
			st.events = evSnoc(st.events, mkEv(evENTER, args[0].One()))
			// the visitor may patch anything, in particular *node
			ensureMems(st)
			havocKeep(st, nil)
			v := st.Load(nodeParam, SVal)
			pt := types.NewPointer(curKind.T)
			st.Assume(dynTypeTest(v, pt))
			curN = VSel("ptr_of", v)
			st.Assume(Not(Eq(curN, NilLoc)))
			st.KnownLoc(curN)
			for i := 0; i < curKind.st.NumFields(); i++ {
				f := curKind.st.Field(i)
				if optionalSlots[curKind.name+"."+f.Name()] {
					cell := st.Load(LocField(curN, fieldLeafOffset(curKind.st, i)), SVal)
					st.ghost["present:"+f.Name()] = Not(Eq(cell, VNil))
				}
			}
			k(st, nil)
			return true
		case "Exit":
			st.events = evSnoc(st.events, mkEv(evEXIT, args[0].One()))
			havocKeep(st, nil)
			k(st, nil)
			return true
		}
		return false
	}
	e.CallHook = func(e *Exec, st *State, fr *Frame, cc *ssa.CallCommon, callee *ssa.Function, args []*Value, k func(*State, []*Value)) bool {
		if callee != walk || fr.fn != walk {
			return false
		}
		slot := args[1].One()
		st.events = evSnoc(st.events, mkEv(evWALK, slot))
		// the recursive walk may replace the node in this slot and change
		// anything below it, but not the other fields of the node being walked
		n := curN
		havocKeep(st, func(l *Term) *Term { return And(Eq(LObj(l), LObj(n)), Not(Eq(l, slot))) })
		k(st, nil)
		return true
	}
	type loopCtx struct {
		E     *Term
		sptr  *Term
		k     *Term
		name  string
		field string
	}
	var inBody *loopCtx
	e.LoopHook = func(e *Exec, st *State, fr *Frame, b, pred *ssa.BasicBlock) bool {
		if fr.fn != walk {
			return false
		}
		if pred != nil && isBackEdge(pred, b) {
			if inBody == nil {
				panic("c10: back edge outside a schematic loop step")
			}
			want := evSnoc(inBody.E, mkEv(evWALK, LocIndex(inBody.sptr, BVBin("bvadd", inBody.k, BV64(1)))))
			e.AddVC(inBody.name+"/step", "inv-pres", walk.String(), st, Not(Eq(st.events, want)), "one iteration emits exactly walk(&"+inBody.field+"[i])")
			return true
		}
		// locate the slice: IndexAddr in the body over load(FieldAddr(n, F))
		var fa *ssa.FieldAddr
		for bb := range loopBody(b) {
			for _, in := range bb.Instrs {
				if ia, ok := in.(*ssa.IndexAddr); ok {
					if ld, ok := ia.X.(*ssa.UnOp); ok {
						if f, ok := ld.X.(*ssa.FieldAddr); ok {
							fa = f
						}
					}
				}
			}
		}
		var phi *ssa.Phi
		for _, in := range b.Instrs {
			if p, ok := in.(*ssa.Phi); ok {
				phi = p
			}
		}
		var lenV ssa.Value
		for _, in := range b.Instrs {
			if bo, ok := in.(*ssa.BinOp); ok && bo.Y != nil {
				if _, isConst := bo.Y.(*ssa.Const); !isConst {
					lenV = bo.Y
				}
			}
		}
		name := fmt.Sprintf("ast.walk[%s]/loop", curKind.name)
		if fa == nil || phi == nil || lenV == nil {
			e.AddVC(name+"/shape", "post", walk.String(), st, True, "range loop does not have the shape 'for i := range n.F { w.walk(&n.F[i]) }'")
			return true
		}
		stt := fa.X.Type().Underlying().(*types.Pointer).Elem().Underlying().(*types.Struct)
		field := stt.Field(fa.Field).Name()
		name = fmt.Sprintf("ast.walk[%s]/loop[%s]", curKind.name, field)
		nptr := e.val(st, fr, fa.X).One()
		hdr := LocField(nptr, fieldLeafOffset(stt, fa.Field))
		S := e.loadT(st, hdr, stt.Field(fa.Field).Type())
		ln := e.val(st, fr, lenV).One()
		e.Assert(name+"/len", "inv-init", walk.String(), st, Eq(ln, S[1]), "the loop bound is the length of the slice whose elements are walked")
		// step
		{
			s2, f2 := st.Clone(), fr.Clone()
			kk := Fresh("k", SBV(64))
			s2.Assume(BVCmp("bvsge", kk, BV64(-1)))
			s2.Assume(BVCmp("bvslt", kk, ln))
			s2.Assume(BVCmp("bvslt", BVBin("bvadd", kk, BV64(1)), ln))
			f2.vals[phi] = &Value{T: phi.Type(), L: []*Term{kk}}
			n := curN
			havocKeep(s2, func(l *Term) *Term { return Eq(LObj(l), LObj(n)) })
			E := Fresh("E", SEvs)
			s2.events = E
			S2 := e.loadT(s2, hdr, stt.Field(fa.Field).Type())
			save := inBody
			inBody = &loopCtx{E: E, sptr: S2[0], k: kk, name: name, field: field}
			e.runFrom(s2, f2, b, 0)
			inBody = save
		}
		// exit: all elements walked
		fr.vals[phi] = &Value{T: phi.Type(), L: []*Term{BVBin("bvsub", ln, BV64(1))}}
		st.events = evSnoc(st.events, mkEv(evREP, hdr))
		n := curN
		havocKeep(st, func(l *Term) *Term { return Eq(LObj(l), LObj(n)) })
		e.runFrom(st, fr, b, 0)
		return true
	}
	for _, kd := range kinds {
		curKind = kd
		st := NewState()
		st.events = evNil
		ensureMems(st)
		e.paramMode = true
		wv := e.havocValue(st, walk.Params[0].Type(), "w")
		nv := e.havocValue(st, walk.Params[1].Type(), "node")
		e.paramMode = false
		st.Assume(Not(Eq(wv.One(), NilLoc)))
		st.Assume(Not(Eq(nv.One(), NilLoc)))
		nodeParam = nv.One()
		curN = nil
		name := fmt.Sprintf("ast.walk[%s]", kd.name)
		nret := 0
		e.call(st, walk, []*Value{wv, nv}, nil, 0, nil,
			func(st *State, _ []*Value) {
				nret++
				// expected sequence from the struct declaration
				exp := evSnoc(evNil, mkEv(evENTER, nodeParam))
				for i := 0; i < kd.st.NumFields(); i++ {
					f := kd.st.Field(i)
					off := fieldLeafOffset(kd.st, i)
					switch {
					case types.Identical(f.Type(), nodeT):
						slot := LocField(curN, off)
						if optionalSlots[kd.name+"."+f.Name()] {
							// evaluated in the memory right after Enter: recorded below
							present := st.ghost["present:"+f.Name()]
							if present == nil {
								present = Fresh("present_"+f.Name(), SBool)
							}
							exp = Ite(present, evSnoc(exp, mkEv(evWALK, slot)), exp)
						} else {
							exp = evSnoc(exp, mkEv(evWALK, slot))
						}
					case isNodeSlice(f.Type(), nodeT):
						exp = evSnoc(exp, mkEv(evREP, LocField(curN, off)))
					}
				}
				exp = evSnoc(exp, mkEv(evEXIT, nodeParam))
				e.AddVC(name+"/post:events", "post", walk.String(), st, Not(Eq(st.events, exp)), "Enter(node), walk of every child slot (address of the field itself) in declaration order, Exit(node)")
				cn := name + "/cover:returns"
				co := e.oblIdx[cn]
				if co == nil {
					co = &Obligation{Name: cn, Kind: "cover", Expect: "sat", Func: walk.String(), Meta: map[string]string{}}
					e.oblIdx[cn] = co
					e.obls = append(e.obls, co)
				}
				co.VCs = append(co.VCs, &VC{Asserts: append([]*Term{True}, st.pc...), Seq: nextVCSeq()})
			},
			func(st *State, pv *Term) {
				ps := pv.String()
				if len(ps) > 160 {
					ps = ps[:160]
				}
				tr := fmt.Sprint(st.trail) + " kinds " + fmt.Sprint(panicKinds)
				e.AddVC(name+"/post:events", "post", walk.String(), st, True, "walk must not fail on a node of kind "+kd.name+"; panic value "+ps+" trail "+tr)
			})
		if nret == 0 {
			e.obls = append(e.obls, missingObl(name+"/post:events", "no returning path: the kind has no case in walk"))
		}
	}
	genPatch(w, e, kinds, nodeT)
	genWalkClients(w, e, res)
	res.Obls = append(res.Obls, e.obls...)
	res.Assumptions = append(res.Assumptions, e.Notes()...)
	res.Assumptions = append(res.Assumptions,
		"visitors replace nodes only through the slot they are given (Enter/Exit may change anything reachable; a recursive walk of a child slot does not change the other fields of the parent node)",
		"child order: the declaration order of Node / []Node fields in ast/node.go is the source order of the children (checked once by reading node.go; From/To of SliceNode are optional)")
}

func isNodeSlice(t types.Type, nodeT types.Type) bool {
	s, ok := t.Underlying().(*types.Slice)
	return ok && types.Identical(s.Elem(), nodeT)
}

// genPatch: ast.Patch(node, newNode) stores newNode into the slot and carries
// over type and location of the replaced node.
func genPatch(w *World, e *Exec, kinds []nodeKind, nodeT types.Type) {
	fn := w.Func("ast.Patch")
	if fn == nil {
		e.obls = append(e.obls, missingObl("ast.Patch/exists", "function not found"))
		return
	}
	saveI, saveC, saveL := e.InvokeHook, e.CallHook, e.LoopHook
	e.InvokeHook, e.CallHook, e.LoopHook = nil, nil, nil
	defer func() { e.InvokeHook, e.CallHook, e.LoopHook = saveI, saveC, saveL }()
	for _, kd := range kinds {
		st := NewState()
		e.paramMode = true
		slot := e.havocValue(st, fn.Params[0].Type(), "node")
		e.paramMode = false
		st.Assume(Not(Eq(slot.One(), NilLoc)))
		// old node: same kind (every kind embeds base first; checked by field layout)
		pt := types.NewPointer(kd.T)
		oldObj := FreshPre(st, "old")
		newObj := FreshPre(st, "new")
		AssumeDistinctObjs(st, oldObj, newObj)
		AssumeDistinctObjs(st, slot.One(), newObj)
		AssumeDistinctObjs(st, slot.One(), oldObj)
		st.Store(slot.One(), VCtor("VPtr", typeCodeTerm(pt), oldObj))
		newV := &Value{T: nodeT, L: []*Term{VCtor("VPtr", typeCodeTerm(pt), newObj)}}
		// base is the first field: leaves loc.Line, loc.Column, nodeType
		line0, col0, typ0 := st.Load(LocField(oldObj, 0), SBV(64)), st.Load(LocField(oldObj, 1), SBV(64)), st.Load(LocField(oldObj, 2), SInt)
		name := fmt.Sprintf("ast.Patch[%s]", kd.name)
		if kd.st.NumFields() == 0 || kd.st.Field(0).Name() != "base" {
			e.AddVC(name+"/post", "post", fn.String(), st, True, "node kinds embed base as their first field")
			continue
		}
		e.call(st, fn, []*Value{slot, newV}, nil, 0, nil,
			func(st *State, _ []*Value) {
				g := And(Eq(st.Load(slot.One(), SVal), newV.One()),
					Eq(st.Load(LocField(newObj, 0), SBV(64)), line0), Eq(st.Load(LocField(newObj, 1), SBV(64)), col0),
					Eq(st.Load(LocField(newObj, 2), SInt), typ0))
				e.AddVC(name+"/post", "post", fn.String(), st, Not(g), "*node == newNode, newNode keeps the replaced node's type and location")
			},
			func(st *State, pv *Term) {
				e.AddVC(name+"/post", "post", fn.String(), st, True, "Patch must not fail on non-nil nodes")
			})
	}
}

// FreshPre: a pointer to a pre-existing object (start of the object).
func FreshPre(st *State, tag string) *Term {
	po := Fresh("pre_"+tag, SInt)
	preObjLeaves[po] = true
	nonZeroLeaves[po] = true
	l := MkLoc(po, IntLit(0), BV64(0))
	st.KnownLoc(l)
	st.pc = append(st.pc, App(">", SBool, po, IntLit(0)))
	return l
}

// genWalkClients: the passes that walk the tree all start at the root slot of
// the tree that is subsequently checked and compiled (syntactic, over SSA).
func genWalkClients(w *World, e *Exec, res *CheckResult) {
	check := func(fname string, callee string, argIdx int, want func(v ssa.Value, fn *ssa.Function) (bool, string)) {
		fn := w.Func(fname)
		o := &Obligation{Name: fname + "/walk-root[" + callee + "]", Kind: "frame", Expect: "unsat", Func: fname, Backend: "syntactic", Meta: map[string]string{}}
		e.obls = append(e.obls, o)
		if fn == nil {
			o.Status, o.Output = "missing", "function not found"
			return
		}
		res.Functions = append(res.Functions, fname)
		found := 0
		o.Status = "discharged"
		for _, b := range fn.Blocks {
			for _, in := range b.Instrs {
				c, ok := in.(ssa.CallInstruction)
				if !ok {
					continue
				}
				f, ok := c.Common().Value.(*ssa.Function)
				if !ok || shortName(f) != callee {
					continue
				}
				found++
				ok2, why := want(c.Common().Args[argIdx], fn)
				if !ok2 {
					o.Status, o.Output = "undecided", why
				}
			}
		}
		if found == 0 {
			o.Status, o.Output = "undecided", "no call to "+callee+" found"
		} else if o.Status == "discharged" {
			o.Output = fmt.Sprintf("%d call(s) to %s start at the root slot", found, callee)
		}
	}
	// in expr.Compile: &tree.Node where tree is the result of parser.Parse
	rootOfParse := func(v ssa.Value, fn *ssa.Function) (bool, string) {
		fa, ok := v.(*ssa.FieldAddr)
		if !ok {
			return false, "argument is not the address of a field"
		}
		stt := fa.X.Type().Underlying().(*types.Pointer).Elem().Underlying().(*types.Struct)
		if stt.Field(fa.Field).Name() != "Node" {
			return false, "argument is not &tree.Node"
		}
		ex, ok := fa.X.(*ssa.Extract)
		if !ok {
			return false, "tree is not the result of parser.Parse"
		}
		call, ok := ex.Tuple.(*ssa.Call)
		if !ok || !strings.HasSuffix(call.Call.Value.String(), "parser.Parse") {
			return false, "tree is not the result of parser.Parse"
		}
		return true, ""
	}
	paramNode := func(v ssa.Value, fn *ssa.Function) (bool, string) {
		if p, ok := v.(*ssa.Parameter); ok && p == fn.Params[0] {
			return true, ""
		}
		return false, "the walk does not start at the function's node parameter"
	}
	check("expr.Compile", "ast.Walk", 0, rootOfParse)
	check("expr.Compile", "compiler.PatchOperators", 0, rootOfParse)
	check("expr.Compile", "optimizer.Optimize", 0, rootOfParse)
	check("compiler.PatchOperators", "ast.Walk", 0, paramNode)
	check("optimizer.Optimize", "ast.Walk", 0, paramNode)
	// Walk itself hands its argument to walk unchanged
	{
		fn := w.Func("ast.Walk")
		o := &Obligation{Name: "ast.Walk/walk-root[ast.walker.walk]", Kind: "frame", Expect: "unsat", Backend: "syntactic", Meta: map[string]string{}}
		e.obls = append(e.obls, o)
		o.Status = "undecided"
		if fn != nil {
			for _, b := range fn.Blocks {
				for _, in := range b.Instrs {
					if c, ok := in.(*ssa.Call); ok {
						if f, ok := c.Call.Value.(*ssa.Function); ok && shortName(f) == "ast.walker.walk" && len(c.Call.Args) == 2 && c.Call.Args[1] == ssa.Value(fn.Params[0]) {
							o.Status = "discharged"
						}
					}
				}
			}
		}
	}
}

func init() {
	registerProp(&propDef{id: "C10", level: "proof", gen: genC10, replay: c10Replay,
		expl: "per node kind (enumerated from the struct declarations by go/types): symbolic execution of the real walk with a ghost event sequence; post-condition events == Enter(node) ++ walk(&field) for every Node / []Node field in declaration order ++ Exit(node), slot addresses are the field addresses themselves; range loops by schematic induction; Patch stores into the slot and preserves type/location; every pass starts at the root slot of the parsed tree"})
}

// c10Replay: walks a tree of the refuted kind with a recording visitor on the
// real code and compares the visited slots with the Node-typed fields found by
// reflection over the struct declaration.
func c10Replay(o *Obligation, dir string) (string, bool) {
	if !strings.HasPrefix(o.Name, "ast.walk[") {
		return "", false
	}
	kind := o.Name[len("ast.walk["):strings.Index(o.Name, "]")]
	src := fmt.Sprintf(`package ast

import (
	"fmt"
	"reflect"
	"testing"
)

type recorder struct{ ev []string }

func (r *recorder) Enter(n *Node) { r.ev = append(r.ev, fmt.Sprintf("enter %%p", n)) }
func (r *recorder) Exit(n *Node)  { r.ev = append(r.ev, fmt.Sprintf("exit %%p", n)) }

// replay of obligation %s
func TestVerifReplay(t *testing.T) {
	var root Node = &%s{}
	nodeT := reflect.TypeOf((*Node)(nil)).Elem()
	v := reflect.ValueOf(root).Elem()
	var want []string
	want = append(want, fmt.Sprintf("enter %%p", &root))
	for i := 0; i < v.NumField(); i++ {
		f := v.Field(i)
		switch {
		case f.Type() == nodeT:
			f.Set(reflect.ValueOf(&IdentifierNode{Value: v.Type().Field(i).Name}))
			p := f.Addr().Interface().(*Node)
			want = append(want, fmt.Sprintf("enter %%p", p), fmt.Sprintf("exit %%p", p))
		case f.Kind() == reflect.Slice && f.Type().Elem() == nodeT:
			f.Set(reflect.ValueOf([]Node{&IdentifierNode{Value: "a"}, &IdentifierNode{Value: "b"}}))
			for j := 0; j < f.Len(); j++ {
				p := f.Index(j).Addr().Interface().(*Node)
				want = append(want, fmt.Sprintf("enter %%p", p), fmt.Sprintf("exit %%p", p))
			}
		}
	}
	want = append(want, fmt.Sprintf("exit %%p", &root))
	r := &recorder{}
	Walk(&root, r)
	if !reflect.DeepEqual(r.ev, want) {
		t.Fatalf("VIOLATED: walking a %s visits %%d slots, its declaration has %%d; got %%v want %%v", len(r.ev)/2, len(want)/2, r.ev, want)
	}
	t.Logf("clause holds for this tree")
}
`, o.Name, kind, kind)
	return runReplay(o, dir, "ast", src)
}

// genRewritesThroughPatch: every replacement of a tree node goes through
// ast.Patch, which carries the static type and the source location over to the
// new node (syntactic: no function other than ast.Patch stores through a
// *ast.Node).
func genRewritesThroughPatch(w *World, res *CheckResult) {
	o := &Obligation{Name: "module/rewrites-go-through-ast.Patch", Kind: "frame", Expect: "unsat", Backend: "syntactic", Func: "ast.Patch", Meta: map[string]string{}, Status: "undecided"}
	res.Obls = append(res.Obls, o)
	nodeT := w.namedType("ast", "Node")
	if nodeT == nil {
		o.Status, o.Output = "missing", "ast.Node not found"
		return
	}
	var bad []string
	n := 0
	for _, f := range libraryFuncs(w) {
		if shortName(f) == "ast.Patch" {
			continue
		}
		for _, b := range f.Blocks {
			for _, in := range b.Instrs {
				st, ok := in.(*ssa.Store)
				if !ok {
					continue
				}
				pt, ok := st.Addr.Type().Underlying().(*types.Pointer)
				if !ok || !types.Identical(pt.Elem(), nodeT) {
					continue
				}
				// stores into a freshly built node's own child fields are construction, not replacement
				if fa, isField := st.Addr.(*ssa.FieldAddr); isField {
					if _, fresh := fa.X.(*ssa.Alloc); fresh {
						continue
					}
				}
				if ia, isIdx := st.Addr.(*ssa.IndexAddr); isIdx {
					_ = ia
					continue // element of a slice of nodes under construction (parser lists)
				}
				if _, isAlloc := st.Addr.(*ssa.Alloc); isAlloc {
					continue // a local variable of type ast.Node
				}
				n++
				bad = append(bad, shortName(f)+" stores a node through a *ast.Node without ast.Patch")
			}
		}
	}
	if len(bad) == 0 {
		o.Status = "discharged"
		o.Output = "no function other than ast.Patch assigns through a *ast.Node (tree slots, parameters or captured slots)"
	} else {
		sort.Strings(bad)
		o.Output = strings.Join(bad, "; ")
	}
}
