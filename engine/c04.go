package main

// C04 — failures are returned as errors, never as panics (the fragment this
// technique decides; see the level note).

import (
	"fmt"
	"go/types"
	"strings"

	"golang.org/x/tools/go/ssa"
)

func genC04(w *World, res *CheckResult) {
	// (1) checker.Check and the configuration functions run outside any recover
	for _, n := range []string{"checker.Check", "conf.Config.Check", "conf.Config.ConstExpr", "checker.visitor.ClosureNode", "checker.visitor.FunctionNode"} {
		fn, ct := w.Func(n), w.Contracts[n]
		if fn == nil {
			res.Obls = append(res.Obls, missingObl(n+"/exists", "function not found"))
			continue
		}
		if ct == nil {
			ct = &Contract{Func: n, Loops: map[string]*LoopSpec{}, Cases: map[string][]Clause{}}
		}
		c2 := *ct
		c2.Mode = "nopanic"
		mode := "nopanic"
		if fn.Recover != nil {
			// the function recovers: panics raised inside are explored through the
			// handler; only a panic that escapes is a failure
			mode = "panics"
			c2.Mode = "panics"
			c2.NoEscape = true
		}
		e := NewExec(w)
		e.SafeMode = func(f *ssa.Function) string { return mode }
		w.forceInline[n] = true
		e.VerifyFunc(fn, &c2, func(st *State, args []*Value, env *SpecEnv) {
			for _, a := range args {
				if _, ok := a.T.Underlying().(*types.Pointer); ok && len(a.L) == 1 && a.T == fn.Params[0].Type() && fn.Signature.Recv() != nil {
					st.Assume(Not(Eq(a.One(), NilLoc))) // method receiver
				}
			}
		})
		delete(w.forceInline, n)
		for _, o := range e.obls {
			if strings.Contains(o.Name, "/safe:") || strings.HasSuffix(o.Name, "/pre-sat") || strings.HasSuffix(o.Name, "/cover:returns") {
				res.Obls = append(res.Obls, o)
			}
		}
		res.Assumptions = append(res.Assumptions, e.Notes()...)
		res.Functions = append(res.Functions, n)
	}
	// facts about package-level variables come from the verified contract of the package initialiser
	if fn, ct := w.SSAPkgs["checker"].Func("init"), w.Contracts["checker.init"]; fn != nil && ct != nil {
		e := NewExec(w)
		e.SafeMode = func(f *ssa.Function) string { return "ignore" }
		bypassImmutable = false
		e.VerifyFunc(fn, ct, func(st *State, args []*Value, env *SpecEnv) {
			// the initialiser runs once: its guard is still false
			if g, ok := w.SSAPkgs["checker"].Members["init$guard"].(*ssa.Global); ok {
				st.Store(e.globalLoc(g), False)
			}
		})
		bypassImmutable = true
		for _, o := range e.obls {
			if strings.Contains(o.Name, "/post[") {
				res.Obls = append(res.Obls, o)
			}
		}
		res.Functions = append(res.Functions, "checker.init")
	} else {
		res.Obls = append(res.Obls, missingObl("checker.init/exists", "initialiser or contract missing"))
	}
	// (1g) option closures run in Compile's option loop, before any recovering stage: expr.Env's closure, for
	// every environment value (nil included)
	for _, n := range []string{"expr.Env$1"} {
		fn := w.Func(n)
		if fn == nil {
			res.Obls = append(res.Obls, missingObl(n+"/exists", "function not found"))
			continue
		}
		e := NewExec(w)
		e.SafeMode = func(f *ssa.Function) string {
			if f == fn {
				return "nopanic"
			}
			return "panics"
		}
		st := NewState()
		args := e.symbolicArgs(st, fn)
		for _, a := range args {
			if len(a.L) == 1 && a.L[0].Sort == SLoc {
				st.Assume(Not(Eq(a.One(), NilLoc))) // the *conf.Config handed to every option
			}
		}
		var bnd []*Value
		e.paramMode = true
		for _, fv := range fn.FreeVars {
			bnd = append(bnd, e.havocValue(st, fv.Type(), "fv_"+fv.Name()))
		}
		e.paramMode = false
		func() {
			defer func() {
				if r := recover(); r != nil {
					res.Obls = append(res.Obls, missingObl(n+"/safe:generator", fmt.Sprint(r)))
				}
			}()
			e.call(st, fn, args, bnd, 0, nil, func(*State, []*Value) {}, func(ps *State, pv *Term) {
				// panics raised inside callees (CreateTypesTable works through reflect on the caller's value)
			})
		}()
		for _, o := range e.obls {
			if strings.Contains(o.Name, "/safe:") {
				res.Obls = append(res.Obls, o)
			}
		}
		res.Functions = append(res.Functions, n)
	}
	// (1b) the optimizer's membership rewrites run outside any recover (expr.Compile calls optimizer.Optimize directly)
	{
		tmp := &CheckResult{}
		genInRange(w, tmp)
		genInArray(w, tmp)
		res.Obls = append(res.Obls, selectObls(tmp.Obls, `^optimizer\.in(Array|Range)\[.*\]/(safe:|post:shape$)`)...)
		tmpr := &CheckResult{}
		genConstRange(w, tmpr)
		res.Obls = append(res.Obls, selectObls(tmpr.Obls, `^optimizer\.constRange/post:content$`, `^optimizer\.constRange\.Exit/`)...)
		res.Functions = append(res.Functions, tmp.Functions...)
	}
	// (1c) string unescaping in the lexer runs outside any recover (parser.Parse calls lexer.Lex directly)
	{
		tmp := &CheckResult{}
		genLexerPositions(w, tmp)
		res.Obls = append(res.Obls, selectObls(tmp.Obls, `^lexer\.unescapeChar/(safe:|loop:|pre-sat|cover:returns)`)...)
		res.Functions = append(res.Functions, "lexer.unescapeChar")
	}
	// (1e) source line lookups used while binding an error to its source
	for _, n := range []string{"file.Source.findLineOffset"} {
		fn, ct := w.Func(n), w.Contracts[n]
		if fn == nil || ct == nil {
			res.Obls = append(res.Obls, missingObl(n+"/exists", "function or contract missing"))
			continue
		}
		e := NewExec(w)
		w.forceInline[n] = true
		e.VerifyFunc(fn, ct, nil)
		delete(w.forceInline, n)
		res.Obls = append(res.Obls, e.obls...)
		res.Functions = append(res.Functions, n)
	}
	// (1f) typing rules that call methods of possibly-nil reflect.Types: the conditional's cells (shared with C03);
	// line-offset table in rune units (Snippet slices contents by it; shared with C13)
	{
		tmp := &CheckResult{}
		genCheckerConditional(w, tmp)
		res.Obls = append(res.Obls, selectObls(tmp.Obls, `^checker\.ConditionalNode\[.*nil.*\]/covers-branches$`)...)
		// the binary typing rule on operands without a static type (nil literal, nil-safe miss)
		tmp3 := &CheckResult{Extra: map[string]interface{}{}}
		genC03(w, tmp3)
		res.Obls = append(res.Obls, selectObls(tmp3.Obls, `^checker\.BinaryNode\[[^,]+,(nil,[a-z0-9-]+|[a-z0-9-]+,nil)\]/sound$`)...)
		res.Functions = append(res.Functions, "checker.visitor.BinaryNode")
		res.Functions = append(res.Functions, "checker.visitor.ConditionalNode")
		if fn, ct := w.Func("file.Source.updateOffsets"), w.Contracts["file.Source.updateOffsets"]; fn != nil && ct != nil {
			e := NewExec(w)
			w.forceInline["file.Source.updateOffsets"] = true
			e.VerifyFunc(fn, ct, nil)
			delete(w.forceInline, "file.Source.updateOffsets")
			for _, o := range e.obls {
				if !strings.Contains(o.Name, "/safe:") {
					res.Obls = append(res.Obls, o)
				}
			}
			res.Functions = append(res.Functions, "file.Source.updateOffsets")
		}
	}
	// (1d) FindSuitableOperatorOverload indexes In(1)/In(2)/Out(0) of every registered operator function without a
	// guard: Config.Check must have rejected every function of another shape
	{
		tmp := &CheckResult{Extra: map[string]interface{}{}}
		genC17(w, tmp)
		res.Obls = append(res.Obls, selectObls(tmp.Obls, `^conf\.Config\.Check/loop:1/body\[well-shaped\]$`, `^conf\.Config\.Check/loop:1/inv-`)...)
		// the resolution itself runs outside any recover (checker.BinaryNode, PatchOperators) on operand types that may
		// be nil: its contract (a nil operand type fits only through the nil guards, never through Implements/
		// AssignableTo called on it) is part of "Compile returns an error or a program" (shared with C17)
		res.Obls = append(res.Obls, selectObls(tmp.Obls, `^conf\.FindSuitableOperatorOverload/`)...)
		res.Functions = append(res.Functions, "conf.FindSuitableOperatorOverload")
	}
	// (1g) jump offsets: a jump that does not fit its 16-bit operand is a compile error (a panic inside Compile's
	// recover), never a wrapped offset - a wrapped backward jump is a program that does not terminate (shared with C05)
	for _, n := range []string{"compiler.compiler.patchJump", "compiler.compiler.calcBackwardJump"} {
		fn, ct := w.Func(n), w.Contracts[n]
		if fn == nil || ct == nil {
			res.Obls = append(res.Obls, missingObl(n+"/exists", "function or contract missing"))
			continue
		}
		e := NewExec(w)
		w.forceInline[n] = true
		e.VerifyFunc(fn, ct, nil)
		delete(w.forceInline, n)
		res.Obls = append(res.Obls, e.obls...)
		res.Assumptions = append(res.Assumptions, e.Notes()...)
		res.Functions = append(res.Functions, n)
	}
	// (2) every node kind has a case in the type switches that run outside a recover
	genSwitchCoverage(w, res, "checker.visitor.visit", 1)
	// (3) recover scopes: result shape
	g := genRun(w)
	res.Obls = append(res.Obls, selectObls(g.obls, `^vm\.VM\.Run/post\[err-shape\]$`, `Run\$1/call-pre`, `^vm\.VM\.Run/pre-sat$`)...)
	res.Functions = append(res.Functions, "vm.VM.Run")
	res.Obls = append(res.Obls, resultShape(w, "expr.Compile")...)
	res.Obls = append(res.Obls, resultShape(w, "expr.Eval")...)
	res.Obls = append(res.Obls, resultShape(w, "parser.Parse")...)
	res.Obls = append(res.Obls, resultShape(w, "vm.Run")...)
	res.Obls = append(res.Obls, recoverShape(w, "compiler.Compile")...)
	res.Obls = append(res.Obls, recoverShape(w, "vm.VM.Run")...)
	res.Obls = append(res.Obls, recoverShape(w, "optimizer.constExpr.Exit")...)
	res.Assumptions = append(res.Assumptions,
		"not decided here: termination ('never hang'), index safety of the lexer, parser and file.Source (they need the data-structure invariants listed in DESIGN.md and are not under contract yet), panics inside user visitors (called outside any recover by design)",
		"reflect functions are assumed not to panic where the library model does not state a precondition (listed above as 'assumed: ... does not panic')")
}

// genSwitchCoverage: run fn once per node kind (argument argIdx holds the node);
// reaching an explicit panic (the default case) is a failed obligation.
func genSwitchCoverage(w *World, res *CheckResult, fname string, argIdx int) {
	fn := w.Func(fname)
	kinds, nodeT := astNodeKinds(w)
	if fn == nil || len(kinds) == 0 {
		res.Obls = append(res.Obls, missingObl(fname+"/exists", "function not found"))
		return
	}
	res.Functions = append(res.Functions, fname)
	for _, kd := range kinds {
		e := NewExec(w)
		e.SafeMode = func(f *ssa.Function) string { return "panics" }
		// the per-kind methods are abstracted: only the dispatch is examined here
		e.CallHook = func(e *Exec, st *State, fr *Frame, cc *ssa.CallCommon, callee *ssa.Function, args []*Value, k func(*State, []*Value)) bool {
			if fr.fn == fn && callee != fn && strings.HasPrefix(shortName(callee), "checker.visitor.") {
				var out []*Value
				rs := callee.Signature.Results()
				for i := 0; i < rs.Len(); i++ {
					out = append(out, e.havocValue(st, rs.At(i).Type(), "r"))
				}
				k(st, out)
				return true
			}
			return false
		}
		st := NewState()
		e.paramMode = true
		var args []*Value
		for _, p := range fn.Params {
			args = append(args, e.havocValue(st, p.Type(), p.Name()))
		}
		e.paramMode = false
		st.Assume(Not(Eq(args[0].One(), NilLoc)))
		obj := FreshPre(st, "n")
		args[argIdx] = &Value{T: nodeT, L: []*Term{VCtor("VPtr", typeCodeTerm(types.NewPointer(kd.T)), obj)}}
		name := fmt.Sprintf("%s[%s]/safe:has-case", fname, kd.name)
		any := false
		e.call(st, fn, args, nil, 0, nil,
			func(st *State, _ []*Value) {
				any = true
				e.AddVC(name, "safe", fn.String(), st, False, "dispatch reaches a case")
			},
			func(st *State, pv *Term) {
				any = true
				e.AddVC(name, "safe", fn.String(), st, True, "a node of kind "+kd.name+" falls through to the panic of the default case")
			})
		if !any {
			e.obls = append(e.obls, missingObl(name, "no path"))
		}
		res.Obls = append(res.Obls, e.obls...)
	}
}

// resultShape (syntactic): every return of a (value, error) function returns a
// nil value with a non-nil error or a value with a nil error.
func resultShape(w *World, fname string) []*Obligation {
	fn := w.Func(fname)
	o := &Obligation{Name: fname + "/post[result-or-error]", Kind: "post", Expect: "unsat", Backend: "syntactic", Meta: map[string]string{}, Status: "discharged"}
	if fn == nil {
		o.Status, o.Output = "missing", "function not found"
		return []*Obligation{o}
	}
	isNil := func(v ssa.Value) bool {
		c, ok := v.(*ssa.Const)
		return ok && c.Value == nil
	}
	n := 0
	for _, b := range fn.Blocks {
		for _, in := range b.Instrs {
			r, ok := in.(*ssa.Return)
			if !ok || len(r.Results) != 2 {
				continue
			}
			n++
			if !isNil(r.Results[0]) && !isNil(r.Results[1]) {
				// (x, err) with both possibly non-nil: allowed only when they are the results of one call (delegation)
				e0, ok0 := r.Results[0].(*ssa.Extract)
				e1, ok1 := r.Results[1].(*ssa.Extract)
				if !(ok0 && ok1 && e0.Tuple == e1.Tuple) {
					o.Status = "undecided"
					o.Output = "a return statement may return both a value and an error"
				}
			}
		}
	}
	if n == 0 {
		o.Status, o.Output = "undecided", "no (value, error) return found"
	} else if o.Status == "discharged" {
		o.Output = fmt.Sprintf("%d return statements: each returns (nil, err), (value, nil) or delegates a call's result pair", n)
	}
	return []*Obligation{o}
}

// recoverShape (syntactic): the function defers, as its first action, a closure of
// the form  if r := recover(); r != nil { <record the error> }  .
func recoverShape(w *World, fname string) []*Obligation {
	fn := w.Func(fname)
	o := &Obligation{Name: fname + "/recover-pattern", Kind: "post", Expect: "unsat", Backend: "syntactic", Meta: map[string]string{}, Status: "undecided"}
	if fn == nil {
		o.Status, o.Output = "missing", "function not found"
		return []*Obligation{o}
	}
	for _, in := range fn.Blocks[0].Instrs {
		d, ok := in.(*ssa.Defer)
		if !ok {
			continue
		}
		mc, ok := d.Call.Value.(*ssa.MakeClosure)
		if !ok {
			continue
		}
		cf := mc.Fn.(*ssa.Function)
		hasRecover, hasStore := false, false
		for _, b := range cf.Blocks {
			for _, ci := range b.Instrs {
				if c, ok := ci.(*ssa.Call); ok {
					if bi, ok := c.Call.Value.(*ssa.Builtin); ok && bi.Name() == "recover" {
						hasRecover = true
					}
				}
				if _, ok := ci.(*ssa.Store); ok {
					hasStore = true
				}
			}
		}
		if hasRecover && hasStore {
			o.Status = "discharged"
			o.Output = "deferred closure recovers and records the failure"
		}
	}
	if o.Status != "discharged" {
		o.Output = "no deferred recover closure found at function entry"
	}
	return []*Obligation{o}
}

func init() {
	registerProp(&propDef{id: "C04", level: "proof", gen: genC04, replay: c04Replay,
		expl: "no-panic obligations (nil dereference, nil reflect.Type call, failed type assertion, index, explicit panic, callee panic) for the functions that run outside a recover: checker.Check, Config.Check, Config.ConstExpr, and the dispatch of checker.visit for every node kind; recover scopes (compiler.Compile, VM.Run, constExpr.Exit) have the recover pattern, their handlers' preconditions hold, and results have the (nil, err) / (value, nil) shape"})
}

func c04Replay(o *Obligation, dir string) (string, bool) {
	var body string
	switch {
	case o.Name == "checker.Check/safe:nil-type-call":
		body = `	_, err := expr.Compile("nil", expr.AsBool())
	_ = err
	_, err = expr.Compile("foo?.bar", expr.AsBool(), expr.Env(map[string]interface{}{}))
	_ = err`
	case o.Name == "conf.Config.ConstExpr/safe:callee-panic:vm.FetchFn" || o.Name == "conf.Config.ConstExpr/safe:panic-escapes":
		body = `	_, err := expr.Compile("1", expr.Env(map[string]interface{}{"f": 1}), expr.ConstExpr("missing"))
	_ = err`
	case o.Name == "conf.Config.Check/safe:nil-type-call":
		body = `	type A struct{ F func(a, b int) int }
	type B struct{ F func(a, b int) int }
	type Env struct {
		A
		B
	}
	_, err := expr.Compile("1 + 2", expr.Env(Env{}), expr.Operator("+", "F"))
	_ = err`
	case strings.HasPrefix(o.Name, "checker.visitor.visit[ConstantNode]"):
		body = `	_, err := expr.Compile("1 + x", expr.Env(map[string]interface{}{"x": 1}), expr.Patch(&constPatcher{}))
	_ = err`
	case o.Name == "checker.visitor.ClosureNode/safe:reflect-nil-type":
		body = `	_, err := expr.Compile("map([1], {nil})", expr.Env(map[string]interface{}{}))
	_ = err`
	default:
		return "", false
	}
	src := `package expr_test

import (
	"testing"

	"github.com/antonmedv/expr"
	"github.com/antonmedv/expr/ast"
)

type constPatcher struct{}

func (*constPatcher) Enter(*ast.Node) {}
func (*constPatcher) Exit(n *ast.Node) {
	if _, ok := (*n).(*ast.IntegerNode); ok {
		ast.Patch(n, &ast.ConstantNode{Value: 1})
	}
}

// replay of obligation ` + o.Name + `: the public API must return an error, not panic
func TestVerifReplay(t *testing.T) {
	defer func() {
		if r := recover(); r != nil {
			t.Fatalf("VIOLATED: panic instead of an error: %v", r)
		}
	}()
` + body + `
	t.Logf("no panic on these inputs")
}
`
	return runReplay(o, dir, ".", src)
}
