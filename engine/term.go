package main

// Term layer: hash-consed SMT-LIB terms with light simplification.
// Everything the condition generator produces is a *Term; printing shares
// common sub-terms through define-fun so store chains stay linear in size.

import (
	"fmt"
	"math/big"
	"sort"
	"strings"
)

const (
	SBool = "Bool"
	SInt  = "Int"
	SStr  = "Str"
	SVal  = "Val"
	SLoc  = "Loc"
	SRV   = "RV" // reflect.Value, opaque
	SF32  = "(_ FloatingPoint 8 24)"
	SF64  = "(_ FloatingPoint 11 53)"
	SEv   = "Ev"  // ghost event
	SEvs  = "Evs" // ghost event sequence (uninterpreted + snoc)
)

func SBV(w int) string { return fmt.Sprintf("(_ BitVec %d)", w) }
func SArr(k, v string) string {
	return "(Array " + k + " " + v + ")"
}

type Term struct {
	Op    string // SMT operator / function symbol; "" for leaf
	Args  []*Term
	Sort  string
	Leaf  string   // leaf text (constant symbol or literal)
	BV    *big.Int // literal bit-vector value (Sort is BV)
	IntV  *big.Int // literal Int value
	Bound bool     // contains a bound variable (cannot be lifted to define-fun)
	id    int
	key   string
	// quantifier
	QVars []*Term
}

var (
	termTab = map[string]*Term{}
	termSeq int
)

func intern(t *Term) *Term {
	var sb strings.Builder
	sb.WriteString(t.Op)
	sb.WriteByte('|')
	sb.WriteString(t.Leaf)
	sb.WriteByte('|')
	sb.WriteString(t.Sort)
	for _, a := range t.Args {
		fmt.Fprintf(&sb, ",%d", a.id)
		if a.Bound {
			t.Bound = true
		}
	}
	for _, a := range t.QVars {
		fmt.Fprintf(&sb, ";%d", a.id)
	}
	k := sb.String()
	if o, ok := termTab[k]; ok {
		return o
	}
	termSeq++
	t.id = termSeq
	t.key = k
	termTab[k] = t
	return t
}

func ResetTerms() { termTab = map[string]*Term{}; termSeq = 0; freshSeq = 0 }

func Leaf(name, sort string) *Term { return intern(&Term{Leaf: name, Sort: sort}) }
func BoundVar(name, sort string) *Term {
	return intern(&Term{Leaf: name, Sort: sort, Bound: true})
}

var freshSeq int

// Fresh returns a new constant symbol; it is declared at print time.
func Fresh(prefix, sort string) *Term {
	freshSeq++
	return Leaf(fmt.Sprintf("%s!%d", sanitize(prefix), freshSeq), sort)
}

func sanitize(s string) string {
	var sb strings.Builder
	for _, r := range s {
		if r >= 'a' && r <= 'z' || r >= 'A' && r <= 'Z' || r >= '0' && r <= '9' || r == '_' || r == '.' {
			sb.WriteRune(r)
		} else {
			sb.WriteByte('_')
		}
	}
	return sb.String()
}

func App(op, sort string, args ...*Term) *Term {
	return intern(&Term{Op: op, Sort: sort, Args: args})
}

var (
	True  = Leaf("true", SBool)
	False = Leaf("false", SBool)
)

func Bool(b bool) *Term {
	if b {
		return True
	}
	return False
}

func bvWidth(sort string) int {
	var w int
	if n, _ := fmt.Sscanf(sort, "(_ BitVec %d)", &w); n == 1 {
		return w
	}
	return 0
}

func BVLit(v *big.Int, w int) *Term {
	m := new(big.Int).Lsh(big.NewInt(1), uint(w))
	x := new(big.Int).Mod(v, m)
	t := &Term{Leaf: fmt.Sprintf("(_ bv%s %d)", x.String(), w), Sort: SBV(w), BV: x}
	return intern(t)
}
func BV64(v int64) *Term { return BVLit(big.NewInt(v), 64) }
func BVu(v uint64, w int) *Term {
	return BVLit(new(big.Int).SetUint64(v), w)
}
func IntLit(v int64) *Term {
	s := fmt.Sprint(v)
	if v < 0 {
		s = fmt.Sprintf("(- %d)", -v)
	}
	return intern(&Term{Leaf: s, Sort: SInt, IntV: big.NewInt(v)})
}

func (t *Term) IsTrue() bool  { return t == True }
func (t *Term) IsFalse() bool { return t == False }
func (t *Term) IsLit() bool   { return t.BV != nil || t.IntV != nil || t == True || t == False }

func Not(a *Term) *Term {
	switch {
	case a == True:
		return False
	case a == False:
		return True
	case a.Op == "not":
		return a.Args[0]
	}
	return App("not", SBool, a)
}

func And(as ...*Term) *Term {
	var out []*Term
	seen := map[int]bool{}
	for _, a := range as {
		if a == nil || a == True {
			continue
		}
		if a == False {
			return False
		}
		if a.Op == "and" {
			for _, b := range a.Args {
				if !seen[b.id] {
					seen[b.id] = true
					out = append(out, b)
				}
			}
			continue
		}
		if !seen[a.id] {
			seen[a.id] = true
			out = append(out, a)
		}
	}
	for _, a := range out {
		if a.Op == "not" && seen[a.Args[0].id] {
			return False
		}
	}
	switch len(out) {
	case 0:
		return True
	case 1:
		return out[0]
	}
	return App("and", SBool, out...)
}

func Or(as ...*Term) *Term {
	var out []*Term
	seen := map[int]bool{}
	for _, a := range as {
		if a == nil || a == False {
			continue
		}
		if a == True {
			return True
		}
		if a.Op == "or" {
			for _, b := range a.Args {
				if !seen[b.id] {
					seen[b.id] = true
					out = append(out, b)
				}
			}
			continue
		}
		if !seen[a.id] {
			seen[a.id] = true
			out = append(out, a)
		}
	}
	for _, a := range out {
		if a.Op == "not" && seen[a.Args[0].id] {
			return True
		}
	}
	switch len(out) {
	case 0:
		return False
	case 1:
		return out[0]
	}
	return App("or", SBool, out...)
}

func Implies(a, b *Term) *Term {
	if a == True {
		return b
	}
	if a == False || b == True {
		return True
	}
	if b == False {
		return Not(a)
	}
	return App("=>", SBool, a, b)
}

func Ite(c, a, b *Term) *Term {
	if c == True {
		return a
	}
	if c == False {
		return b
	}
	if a == b {
		return a
	}
	if a.Sort == SBool {
		if a == True && b == False {
			return c
		}
		if a == False && b == True {
			return Not(c)
		}
	}
	return App("ite", a.Sort, c, a, b)
}

// ctorOf returns the datatype constructor name if t is a constructor application.
func ctorOf(t *Term) string {
	if t.Op != "" && isCtor[t.Op] {
		return t.Op
	}
	if t.Op == "" && isCtor[t.Leaf] {
		return t.Leaf
	}
	return ""
}

var isCtor = map[string]bool{}

func Eq(a, b *Term) *Term {
	if a == b {
		return True
	}
	if a.Sort != b.Sort {
		panic(fmt.Sprintf("Eq: sort mismatch %s vs %s (%s = %s)", a.Sort, b.Sort, a, b))
	}
	if a.BV != nil && b.BV != nil {
		return Bool(a.BV.Cmp(b.BV) == 0)
	}
	if a.IntV != nil && b.IntV != nil {
		return Bool(a.IntV.Cmp(b.IntV) == 0)
	}
	if a.IsLit() && b.IsLit() && a.Sort == SBool {
		return Bool(a == b)
	}
	ca, cb := ctorOf(a), ctorOf(b)
	if ca != "" && cb != "" {
		if ca != cb {
			return False
		}
		var cs []*Term
		for i := range a.Args {
			cs = append(cs, Eq(a.Args[i], b.Args[i]))
		}
		return And(cs...)
	}
	if a.Sort == SBool {
		if b == True {
			return a
		}
		if b == False {
			return Not(a)
		}
		if a == True {
			return b
		}
		if a == False {
			return Not(b)
		}
	}
	if strLits[a] && strLits[b] {
		return False // distinct literals (a != b pointer-wise, interned by content)
	}
	// the object of a local variable whose address never escapes cannot be
	// denoted by any other term (no pointer to it is ever stored or passed)
	if (privateObjLeaves[a] && b.Op != "ite") || (privateObjLeaves[b] && a.Op != "ite") {
		return False
	}
	if (nonZeroLeaves[a] && b.IntV != nil && b.IntV.Sign() == 0) || (nonZeroLeaves[b] && a.IntV != nil && a.IntV.Sign() == 0) {
		return False
	}
	if distinctPairs[[2]*Term{a, b}] || distinctPairs[[2]*Term{b, a}] {
		return False // a driver set this pair up as two different objects (and assumed it)
	}
	// fresh object identities are pairwise distinct and differ from literal ids
	if objLeaves[a] && (objLeaves[b] || b.IntV != nil || preObjLeaves[b]) || objLeaves[b] && (a.IntV != nil || preObjLeaves[a]) {
		return False
	}
	// x + c1 = x + c2, x = x + c
	if r := offsetEq(a, b); r != nil {
		return r
	}
	if a.id > b.id {
		a, b = b, a
	}
	return App("=", SBool, a, b)
}

var strLits = map[*Term]bool{}
var objLeaves = map[*Term]bool{}
var preObjLeaves = map[*Term]bool{}
var privateObjLeaves = map[*Term]bool{}
var nonZeroLeaves = map[*Term]bool{} // object ids asserted > 0 at creation
var distinctPairs = map[[2]*Term]bool{}

func Distinct(a, b *Term) *Term { return Not(Eq(a, b)) }

// ---- bit-vectors

func mask(w int) *big.Int {
	return new(big.Int).Sub(new(big.Int).Lsh(big.NewInt(1), uint(w)), big.NewInt(1))
}

func signed(v *big.Int, w int) *big.Int {
	if v.Bit(w-1) == 1 {
		return new(big.Int).Sub(v, new(big.Int).Lsh(big.NewInt(1), uint(w)))
	}
	return new(big.Int).Set(v)
}

func BVBin(op string, a, b *Term) *Term {
	if a.Sort != b.Sort {
		panic(fmt.Sprintf("BVBin %s: sort mismatch %s vs %s", op, a.Sort, b.Sort))
	}
	w := bvWidth(a.Sort)
	if a.BV != nil && b.BV != nil {
		var r *big.Int
		switch op {
		case "bvadd":
			r = new(big.Int).Add(a.BV, b.BV)
		case "bvsub":
			r = new(big.Int).Sub(a.BV, b.BV)
		case "bvmul":
			r = new(big.Int).Mul(a.BV, b.BV)
		case "bvand":
			r = new(big.Int).And(a.BV, b.BV)
		case "bvor":
			r = new(big.Int).Or(a.BV, b.BV)
		case "bvxor":
			r = new(big.Int).Xor(a.BV, b.BV)
		}
		if r != nil {
			return BVLit(r, w)
		}
	}
	if b.BV != nil && b.BV.Sign() == 0 && (op == "bvadd" || op == "bvsub" || op == "bvor" || op == "bvxor") {
		return a
	}
	if a.BV != nil && a.BV.Sign() == 0 && (op == "bvadd" || op == "bvor" || op == "bvxor") {
		return b
	}
	// (x + c1) + c2  ->  x + (c1+c2)
	if (op == "bvadd" || op == "bvsub") && b.BV != nil && a.Op == "bvadd" && a.Args[1].BV != nil {
		c := new(big.Int).Set(a.Args[1].BV)
		if op == "bvadd" {
			c.Add(c, b.BV)
		} else {
			c.Sub(c, b.BV)
		}
		return BVBin("bvadd", a.Args[0], BVLit(c, w))
	}
	if op == "bvsub" && b.BV != nil {
		return BVBin("bvadd", a, BVLit(new(big.Int).Neg(b.BV), w))
	}
	if op == "bvsub" && a == b {
		return BVLit(big.NewInt(0), w)
	}
	return App(op, a.Sort, a, b)
}

func BVCmp(op string, a, b *Term) *Term {
	if a.Sort != b.Sort {
		panic(fmt.Sprintf("BVCmp %s: sort mismatch %s vs %s", op, a.Sort, b.Sort))
	}
	w := bvWidth(a.Sort)
	if a.BV != nil && b.BV != nil {
		x, y := a.BV, b.BV
		if strings.HasPrefix(op, "bvs") {
			x, y = signed(x, w), signed(y, w)
		}
		c := x.Cmp(y)
		switch op[3:] {
		case "lt":
			return Bool(c < 0)
		case "le":
			return Bool(c <= 0)
		case "gt":
			return Bool(c > 0)
		case "ge":
			return Bool(c >= 0)
		}
	}
	if a == b {
		switch op[3:] {
		case "lt", "gt":
			return False
		case "le", "ge":
			return True
		}
	}
	return App(op, SBool, a, b)
}

func BVNeg(a *Term) *Term {
	if a.BV != nil {
		return BVLit(new(big.Int).Neg(a.BV), bvWidth(a.Sort))
	}
	return App("bvneg", a.Sort, a)
}
func BVNot(a *Term) *Term { return App("bvnot", a.Sort, a) }

func Extract(hi, lo int, a *Term) *Term {
	w := bvWidth(a.Sort)
	if lo == 0 && hi == w-1 {
		return a
	}
	if a.BV != nil {
		v := new(big.Int).Rsh(a.BV, uint(lo))
		return BVLit(v, hi-lo+1)
	}
	return App(fmt.Sprintf("(_ extract %d %d)", hi, lo), SBV(hi-lo+1), a)
}
func ZeroExt(n int, a *Term) *Term {
	if n == 0 {
		return a
	}
	w := bvWidth(a.Sort)
	if a.BV != nil {
		return BVLit(a.BV, w+n)
	}
	return App(fmt.Sprintf("(_ zero_extend %d)", n), SBV(w+n), a)
}
func SignExt(n int, a *Term) *Term {
	if n == 0 {
		return a
	}
	w := bvWidth(a.Sort)
	if a.BV != nil {
		return BVLit(signed(a.BV, w), w+n)
	}
	return App(fmt.Sprintf("(_ sign_extend %d)", n), SBV(w+n), a)
}

// ---- arrays

func Select(arr, idx *Term) *Term {
	es := elemSort(arr.Sort)
	for arr.Op == "store" {
		e := Eq(arr.Args[1], idx)
		if e == True {
			return arr.Args[2]
		}
		if e == False {
			arr = arr.Args[0]
			continue
		}
		break
	}
	return App("select", es, arr, idx)
}

func Store(arr, idx, v *Term) *Term {
	if arr.Op == "store" && arr.Args[1] == idx {
		arr = arr.Args[0]
	}
	return App("store", arr.Sort, arr, idx, v)
}

// elemSort parses "(Array K V)" and returns V.
func elemSort(s string) string {
	_, v := arrSorts(s)
	return v
}
func arrSorts(s string) (string, string) {
	if !strings.HasPrefix(s, "(Array ") {
		panic("not an array sort: " + s)
	}
	body := s[len("(Array ") : len(s)-1]
	// split body into two s-expressions
	depth := 0
	for i, c := range body {
		switch c {
		case '(':
			depth++
		case ')':
			depth--
		case ' ':
			if depth == 0 {
				return body[:i], body[i+1:]
			}
		}
	}
	panic("bad array sort " + s)
}

// ---- datatype helpers (Loc, Val); constructors registered in prelude.go

func Ctor(name, sort string, args ...*Term) *Term {
	isCtor[name] = true
	if len(args) == 0 {
		return Leaf(name, sort)
	}
	return App(name, sort, args...)
}

// Sel applies a selector; simplifies on constructor applications.
func Sel(sel, ctor, sort string, pos int, a *Term) *Term {
	if ctorOf(a) == ctor {
		return a.Args[pos]
	}
	if a.Op == "ite" {
		ca, cb := ctorOf(a.Args[1]), ctorOf(a.Args[2])
		if ca == ctor && cb == ctor {
			return Ite(a.Args[0], a.Args[1].Args[pos], a.Args[2].Args[pos])
		}
	}
	return App(sel, sort, a)
}

// Is tests for a constructor.
func Is(ctor string, a *Term) *Term {
	if c := ctorOf(a); c != "" {
		return Bool(c == ctor)
	}
	if a.Op == "ite" {
		ca, cb := ctorOf(a.Args[1]), ctorOf(a.Args[2])
		if ca != "" && cb != "" {
			return Ite(a.Args[0], Bool(ca == ctor), Bool(cb == ctor))
		}
	}
	return App("(_ is "+ctor+")", SBool, a)
}

func Forall(vars []*Term, body *Term) *Term {
	if body == True {
		return True
	}
	t := &Term{Op: "forall", Sort: SBool, Args: []*Term{body}, QVars: vars}
	t = intern(t)
	// a quantified term is closed w.r.t. its own variables
	t.Bound = hasFreeBound(body, vars)
	return t
}
func Exists(vars []*Term, body *Term) *Term {
	t := &Term{Op: "exists", Sort: SBool, Args: []*Term{body}, QVars: vars}
	t = intern(t)
	t.Bound = hasFreeBound(body, vars)
	return t
}

func hasFreeBound(t *Term, bound []*Term) bool {
	if !t.Bound {
		return false
	}
	bs := map[*Term]bool{}
	for _, b := range bound {
		bs[b] = true
	}
	var rec func(t *Term, bs map[*Term]bool) bool
	rec = func(t *Term, bs map[*Term]bool) bool {
		if !t.Bound {
			return false
		}
		if t.Op == "" {
			return !bs[t]
		}
		if len(t.QVars) > 0 {
			nb := map[*Term]bool{}
			for k := range bs {
				nb[k] = true
			}
			for _, q := range t.QVars {
				nb[q] = true
			}
			return rec(t.Args[0], nb)
		}
		for _, a := range t.Args {
			if rec(a, bs) {
				return true
			}
		}
		return false
	}
	return rec(t, bs)
}

// Subst replaces leaves according to m (no capture handling needed: bound
// variable names are globally unique).
func Subst(t *Term, m map[*Term]*Term) *Term {
	memo := map[*Term]*Term{}
	var rec func(t *Term) *Term
	rec = func(t *Term) *Term {
		if r, ok := m[t]; ok {
			return r
		}
		if t.Op == "" {
			return t
		}
		if r, ok := memo[t]; ok {
			return r
		}
		args := make([]*Term, len(t.Args))
		ch := false
		for i, a := range t.Args {
			args[i] = rec(a)
			if args[i] != a {
				ch = true
			}
		}
		r := t
		if ch {
			r = rebuild(t, args)
		}
		memo[t] = r
		return r
	}
	return rec(t)
}

func rebuild(t *Term, args []*Term) *Term {
	switch t.Op {
	case "and":
		return And(args...)
	case "or":
		return Or(args...)
	case "not":
		return Not(args[0])
	case "=>":
		return Implies(args[0], args[1])
	case "ite":
		return Ite(args[0], args[1], args[2])
	case "=":
		return Eq(args[0], args[1])
	case "select":
		return Select(args[0], args[1])
	case "store":
		return Store(args[0], args[1], args[2])
	case "forall":
		return Forall(t.QVars, args[0])
	case "exists":
		return Exists(t.QVars, args[0])
	case "bvadd", "bvsub", "bvmul", "bvand", "bvor", "bvxor":
		return BVBin(t.Op, args[0], args[1])
	case "bvult", "bvule", "bvugt", "bvuge", "bvslt", "bvsle", "bvsgt", "bvsge":
		return BVCmp(t.Op, args[0], args[1])
	}
	if strings.HasPrefix(t.Op, "(_ is ") {
		return Is(t.Op[6:len(t.Op)-1], args[0])
	}
	if si, ok := selInfo[t.Op]; ok {
		return Sel(t.Op, si.ctor, t.Sort, si.pos, args[0])
	}
	return intern(&Term{Op: t.Op, Sort: t.Sort, Args: args})
}

type selI struct {
	ctor string
	pos  int
}

var selInfo = map[string]selI{}

// ---- printing

func (t *Term) String() string {
	var sb strings.Builder
	printTerm(&sb, t, nil)
	return sb.String()
}

func printTerm(sb *strings.Builder, t *Term, names map[*Term]string) {
	if n, ok := names[t]; ok {
		sb.WriteString(n)
		return
	}
	if t.Op == "" {
		sb.WriteString(smtSym(t))
		return
	}
	if len(t.QVars) > 0 {
		sb.WriteString("(" + t.Op + " (")
		for _, v := range t.QVars {
			sb.WriteString("(" + smtSym(v) + " " + v.Sort + ")")
		}
		sb.WriteString(") ")
		printTerm(sb, t.Args[0], names)
		sb.WriteString(")")
		return
	}
	sb.WriteString("(" + t.Op)
	for _, a := range t.Args {
		sb.WriteByte(' ')
		printTerm(sb, a, names)
	}
	sb.WriteString(")")
}

func smtSym(t *Term) string {
	if t.IsLit() || isCtor[t.Leaf] || strings.HasPrefix(t.Leaf, "(") || builtinLeaf[t.Leaf] {
		return t.Leaf
	}
	return "|" + t.Leaf + "|"
}

var builtinLeaf = map[string]bool{"RNE": true, "RTZ": true}

// Script renders a query: declarations of all free constants, define-funs
// for shared sub-terms, then the asserts.
func Script(prelude string, asserts []*Term, opts string) string {
	var sb strings.Builder
	sb.WriteString(opts)
	sb.WriteString(prelude)
	// collect
	refs := map[*Term]int{}
	var order []*Term
	leaves := map[*Term]bool{}
	var walk func(t *Term)
	walk = func(t *Term) {
		refs[t]++
		if refs[t] > 1 {
			return
		}
		for _, a := range t.Args {
			walk(a)
		}
		if t.Op == "" {
			if !t.IsLit() && !t.Bound && !isCtor[t.Leaf] && !builtinLeaf[t.Leaf] && !strings.HasPrefix(t.Leaf, "(") {
				leaves[t] = true
			}
		}
		order = append(order, t)
	}
	for _, a := range asserts {
		walk(a)
	}
	usedUF := map[string]bool{}
	for _, t := range order {
		if t.Op != "" {
			if _, ok := ufSigs[t.Op]; ok {
				usedUF[t.Op] = true
			}
		}
	}
	var ufs []string
	for u := range usedUF {
		ufs = append(ufs, u)
	}
	sort.Strings(ufs)
	for _, u := range ufs {
		sb.WriteString(ufSigs[u])
		sb.WriteByte('\n')
	}
	var ls []*Term
	for l := range leaves {
		ls = append(ls, l)
	}
	sort.Slice(ls, func(i, j int) bool { return ls[i].id < ls[j].id })
	for _, l := range ls {
		if declaredInPrelude[l.Leaf] {
			continue
		}
		fmt.Fprintf(&sb, "(declare-fun %s () %s)\n", smtSym(l), l.Sort)
	}
	var lits []*Term
	for _, l := range ls {
		if strLits[l] {
			lits = append(lits, l)
		}
	}
	for _, f := range strLitFacts(lits) {
		sb.WriteString(f)
		sb.WriteByte('\n')
	}
	names := map[*Term]string{}
	for _, t := range order {
		if t.Op != "" && !t.Bound && refs[t] > 1 && len(t.Args) > 0 {
			var b strings.Builder
			printTerm(&b, t, names)
			n := fmt.Sprintf("$t%d", t.id)
			fmt.Fprintf(&sb, "(define-fun %s () %s %s)\n", n, t.Sort, b.String())
			names[t] = n
		}
	}
	for _, a := range asserts {
		var b strings.Builder
		printTerm(&b, a, names)
		fmt.Fprintf(&sb, "(assert %s)\n", b.String())
	}
	return sb.String()
}

var declaredInPrelude = map[string]bool{}

var ufSigs = map[string]string{}

// UF applies an uninterpreted function, declaring it on first use.
func UF(name, sort string, args ...*Term) *Term {
	if _, ok := ufSigs[name]; !ok {
		var as []string
		for _, a := range args {
			as = append(as, a.Sort)
		}
		ufSigs[name] = fmt.Sprintf("(declare-fun %s (%s) %s)", name, strings.Join(as, " "), sort)
	}
	return App(name, sort, args...)
}
