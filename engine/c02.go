package main

// C02 — the optimizer is observationally transparent (constant folding cells).
// For every arithmetic operator and every static type the checker can put on
// the literals, the real fold.Exit is executed on BinaryNode{op, Integer a,
// Integer b}; the value the real compiler pushes for the folded literal
// (compiler.IntegerNode) is compared with the result of the real run-time
// helper applied to the values the compiler pushes for the two operands.
// a and b range over all of int64; the cells are loop free.

import (
	"fmt"
	"go/types"
	"os"
	"strings"

	"golang.org/x/tools/go/ssa"
)

type astLayout struct {
	w *World
}

func (l astLayout) st(name string) *types.Struct {
	return l.w.namedType("ast", name).Underlying().(*types.Struct)
}
func (l astLayout) off(name, field string) int {
	s := l.st(name)
	for i := 0; i < s.NumFields(); i++ {
		if s.Field(i).Name() == field {
			return fieldLeafOffset(s, i)
		}
	}
	panic("no field " + name + "." + field)
}
func (l astLayout) ptrVal(name string, loc *Term) *Term {
	return VCtor("VPtr", typeCodeTerm(types.NewPointer(l.w.namedType("ast", name))), loc)
}

type litType struct {
	name string
	code *Term // reflect.Type code (0 = no static type)
}

func foldLitTypes(w *World) []litType {
	out := []litType{{"untyped", IntLit(0)}}
	for _, k := range numKinds {
		out = append(out, litType{k.name, typeCodeTerm(k.T)})
	}
	out = append(out, litType{"interface", typeCodeTerm(types.NewInterfaceType(nil, nil))})
	return out
}

// pushedInteger: the constant the real compiler.IntegerNode pushes for an
// IntegerNode with the given value and static type code.
func pushedInteger(w *World, value, tcode *Term) (*Term, bool) {
	e := NewExec(w)
	hooks := installTemplateHooks(w, e)
	fn := w.Func("compiler.compiler.IntegerNode")
	if fn == nil {
		return nil, false
	}
	lay := astLayout{w}
	st := NewState()
	e.paramMode = true
	cv := e.havocValue(st, fn.Params[0].Type(), "c")
	e.paramMode = false
	st.Assume(Not(Eq(cv.One(), NilLoc)))
	n := FreshPre(st, "lit")
	AssumeDistinctObjs(st, n, cv.One())
	st.Store(LocField(n, lay.off("IntegerNode", "Value")), value)
	st.Store(LocField(n, 2), tcode)
	hooks.setPos(st, cv.One(), BV64(0))
	st.aux = &tAcc{}
	var got *Term
	cnt := 0
	e.call(st, fn, []*Value{cv, {T: fn.Params[1].Type(), L: []*Term{n}}}, nil, 0, nil,
		func(st *State, _ []*Value) {
			items := hooks.acc(st).items
			if len(items) == 1 && items[0].Kind == "emit" && items[0].OpName == "OpPush" && items[0].Operand == "const" {
				got = items[0].Const
				cnt++
			} else {
				cnt += 100
			}
		},
		func(st *State, pv *Term) { cnt += 100 })
	if traceOn && cnt != 1 {
		fmt.Fprintf(os.Stderr, "trace: pushedInteger cnt=%d notes=%v\n", cnt, e.Notes())
	}
	return got, cnt == 1
}

func genC02(w *World, res *CheckResult) {
	lay := astLayout{w}
	foldFn := w.Func("optimizer.fold.Exit")
	if foldFn == nil {
		res.Obls = append(res.Obls, missingObl("optimizer.fold.Exit/exists", "function not found"))
		return
	}
	res.Functions = append(res.Functions, "optimizer.fold.Exit", "compiler.compiler.IntegerNode", "ast.Patch")
	for _, n := range []string{"toInt", "toInt64", "toFloat64", "negate", "exponent", "equal", "less", "more", "lessOrEqual", "moreOrEqual", "add", "subtract", "multiply", "divide", "modulo"} {
		w.forceInline["vm."+n] = true
	}
	ops := []struct{ op, helper string }{{"+", "add"}, {"-", "subtract"}, {"*", "multiply"}, {"/", "divide"}, {"%", "modulo"}, {"**", "exponent"}}
	iface := types.NewInterfaceType(nil, nil)
	lts := foldLitTypes(w)
	type litPair struct{ lt, rt litType }
	var pairs []litPair
	for _, lt := range lts {
		pairs = append(pairs, litPair{lt, lt})
	}
	// literals of different static types under one operation: the checker retypes the integer literals of an
	// argument to the parameter type but does not descend into % (whose folded result stays int), so a literal of
	// any numeric type can meet an int literal under + - * /
	for _, lt := range lts {
		if lt.name != "int" {
			for _, it := range lts {
				if it.name == "int" {
					pairs = append(pairs, litPair{lt, it}, litPair{it, lt})
				}
			}
		}
	}
	for _, pr := range pairs {
		lt, rt := pr.lt, pr.rt
		for _, op := range ops {
			cell := fmt.Sprintf("optimizer.fold[%s,%s]", op.op, lt.name)
			if rt.name != lt.name {
				if op.op == "%" || op.op == "**" {
					continue
				}
				cell = fmt.Sprintf("optimizer.fold[%s,%s|%s]", op.op, lt.name, rt.name)
			}
			helper := w.Func("vm." + op.helper)
			if helper == nil {
				res.Obls = append(res.Obls, missingObl(cell+"/exists", "helper not found"))
				continue
			}
			res.Functions = append(res.Functions, "vm."+op.helper)
			a, b := Fresh("a", SBV(64)), Fresh("b", SBV(64))
			// --- unoptimized: helper(push(a), push(b))
			pa, ok1 := pushedInteger(w, a, lt.code)
			pb, ok2 := pushedInteger(w, b, rt.code)
			if !ok1 || !ok2 {
				res.Obls = append(res.Obls, missingObl(cell+"/post:transparent", "compiler.IntegerNode did not produce a single push"))
				continue
			}
			e := NewExec(w)
			e.SafeMode = func(f *ssa.Function) string { return "panics" }
			if op.helper == "modulo" && (strings.HasPrefix(lt.name, "float")) {
				// the checker rejects % on floats: no program to compare
				continue
			}
			unopt := e.Run(helper, []*Value{{T: iface, L: []*Term{pa}}, {T: iface, L: []*Term{pb}}}, NewState(), nil)
			// --- optimized: fold.Exit on the tree
			st := NewState()
			e.paramMode = true
			fv := e.havocValue(st, foldFn.Params[0].Type(), "fold")
			slot := e.havocValue(st, foldFn.Params[1].Type(), "node")
			e.paramMode = false
			st.Assume(Not(Eq(fv.One(), NilLoc)))
			st.Assume(Not(Eq(slot.One(), NilLoc)))
			bn, ln, rn := FreshPre(st, "bin"), FreshPre(st, "lhs"), FreshPre(st, "rhs")
			for _, x := range [][2]*Term{{bn, ln}, {bn, rn}, {ln, rn}, {bn, slot.One()}, {ln, slot.One()}, {rn, slot.One()}, {bn, fv.One()}, {ln, fv.One()}, {rn, fv.One()}, {slot.One(), fv.One()}} {
				AssumeDistinctObjs(st, x[0], x[1])
			}
			st.Store(slot.One(), lay.ptrVal("BinaryNode", bn))
			st.Store(LocField(bn, lay.off("BinaryNode", "Operator")), StrLit(op.op))
			st.Store(LocField(bn, lay.off("BinaryNode", "Left")), lay.ptrVal("IntegerNode", ln))
			st.Store(LocField(bn, lay.off("BinaryNode", "Right")), lay.ptrVal("IntegerNode", rn))
			st.Store(LocField(ln, lay.off("IntegerNode", "Value")), a)
			st.Store(LocField(rn, lay.off("IntegerNode", "Value")), b)
			st.Store(LocField(ln, 2), lt.code)
			st.Store(LocField(rn, 2), rt.code)
			// the checker retypes the literals under + - * / of an argument (setTypeForIntegers) but leaves the
			// operation node's own static type as first computed: it is arbitrary here. % and ** are never
			// retyped: their node keeps the type computed from the literals.
			switch op.op {
			case "+", "-", "*", "/":
				st.Store(LocField(bn, 2), Fresh("bintype", SInt))
			case "**":
				st.Store(LocField(bn, 2), typeCodeTerm(types.Typ[types.Float64])) // the checker types ** as float64
			default:
				st.Store(LocField(bn, 2), lt.code)
			}
			// fold.err starts nil, applied false
			fst := foldFn.Params[0].Type().Underlying().(*types.Pointer).Elem().Underlying().(*types.Struct)
			errOff := fieldLeafOffset(fst, 1)
			st.Store(LocField(fv.One(), errOff), NilLoc)
			old := lay.ptrVal("BinaryNode", bn)
			outs := e.Run(foldFn, []*Value{fv, slot}, st, nil)
			meta := map[string]string{"op": op.op, "type": lt.name, "xa": a.Leaf, "xb": b.Leaf}
			cov := &Obligation{Name: cell + "/cover:fold-fires-or-not", Kind: "cover", Expect: "sat", Func: foldFn.String(), Meta: meta}
			e.obls = append(e.obls, cov)
			for _, o := range outs {
				if o.Panic == nil {
					cov.VCs = append(cov.VCs, &VC{Asserts: append([]*Term{True}, o.St.pc...), Seq: nextVCSeq()})
				}
			}
			if len(cov.VCs) == 0 {
				cov.VCs = append(cov.VCs, &VC{Asserts: []*Term{False, True}, Seq: nextVCSeq()})
			}
			defer func(cell string, meta map[string]string) {
				for _, n := range []string{"/post:transparent", "/post:only-div-zero-rejected"} {
					if ob := e.oblIdx[cell+n]; ob != nil {
						ob.Meta = meta
					}
				}
			}(cell, meta)
			for _, o := range outs {
				if o.Panic != nil {
					e.AddVC(cell+"/post:transparent", "post", foldFn.String(), o.St, True, "the rewrite itself must not fail")
					continue
				}
				cur := o.St.Load(slot.One(), SVal)
				errSet := Not(Eq(o.St.Load(LocField(fv.One(), errOff), SLoc), NilLoc))
				replaced := Not(Eq(cur, old))
				// a compile-time rejection is reported at the operator of the failing operation (its node's location)
				{
					ep := o.St.Load(LocField(fv.One(), errOff), SLoc)
					same := And(Eq(o.St.Load(LocField(ep, 0), SBV(64)), o.St.Load(LocField(bn, 0), SBV(64))),
						Eq(o.St.Load(LocField(ep, 1), SBV(64)), o.St.Load(LocField(bn, 1), SBV(64))))
					e.AddVC(cell+"/post:error-at-operator", "post", foldFn.String(), o.St, And(errSet, Not(same)), "an error raised while folding carries the location of the operation that fails")
				}
				// the value the compiler pushes for the replacement
				var folded *Term
				isInt := dynTypeTest(cur, types.NewPointer(w.namedType("ast", "IntegerNode")))
				isFloat := dynTypeTest(cur, types.NewPointer(w.namedType("ast", "FloatNode")))
				np := VSel("ptr_of", cur)
				if o.St.Simp(isInt) == True {
					v2 := o.St.Load(LocField(np, lay.off("IntegerNode", "Value")), SBV(64))
					t2 := o.St.Load(LocField(np, 2), SInt)
					t2 = o.St.Simp(t2)
					pv, ok := pushedInteger(w, v2, t2)
					if !ok {
						e.AddVC(cell+"/post:transparent", "post", foldFn.String(), o.St, True, "the folded literal carries a type the compiler cannot push")
						continue
					}
					folded = pv
				} else if o.St.Simp(isFloat) == True {
					folded = VCtor("VF64", o.St.Load(LocField(np, lay.off("FloatNode", "Value")), SF64))
					// a float literal is a float64 at run time: its static type says so too (later passes key on it)
					ft := o.St.Load(LocField(np, 2), SInt)
					e.AddVC(cell+"/post:type-agrees", "post", foldFn.String(), o.St, Not(Or(Eq(ft, IntLit(0)), Eq(rtKind(ft), BV64(14)), Eq(rtKind(ft), BV64(20)))),
						"a folded float literal carries a float64 (or no / an interface) static type")
				}
				for _, u := range unopt {
					s2 := o.St.Clone()
					for _, p := range u.St.pc {
						s2.Assume(p)
					}
					if s2.Infeasible() {
						continue
					}
					switch {
					case u.Panic != nil:
						// the unoptimized program fails at run time: the optimized one may only fail too (at compile time)
						e.AddVC(cell+"/post:transparent", "post", foldFn.String(), s2, And(replaced, Not(errSet)), "operands on which the unoptimized program fails must not be folded into a value")
						e.AddVC(cell+"/post:only-div-zero-rejected", "post", foldFn.String(), s2, And(errSet, Not(Eq(b, BV64(0)))), "the optimizer may reject only a constant integer division or modulo by zero")
					default:
						e.AddVC(cell+"/post:only-div-zero-rejected", "post", foldFn.String(), s2, errSet, "a constant expression that evaluates at run time must not be rejected by the optimizer")
						if folded != nil {
							got := e.boxValue(s2, u.Res[0])
							e.AddVC(cell+"/post:transparent", "post", foldFn.String(), s2, Not(Eq(got, folded)), "folded literal == helper(operands): equal in kind and value")
						} else {
							e.AddVC(cell+"/post:transparent", "post", foldFn.String(), s2, replaced, "the node is replaced by something other than an integer or float literal")
						}
					}
				}
			}
			res.Obls = append(res.Obls, e.obls...)
			res.Assumptions = append(res.Assumptions, e.Notes()...)
		}
	}
	genFoldUnary(w, res)
	genFoldArray(w, res)
	genFoldNonConstant(w, res)
	genInRange(w, res)
	genInArray(w, res)
	genConstRange(w, res)
	genConstExpr(w, res)
	verifyInit(w, res, "optimizer")
	genPipelineOrder(w, res)
	genRewritesThroughPatch(w, res)
	res.Assumptions = append(res.Assumptions,
		"scope of this check: the constant-folding rewrite of binary arithmetic on two integer literals carrying the same static type (the checker retypes all literals of an argument together); the in-range rewrite (shape, type guard, single evaluation of the left operand); array folding, in-array, constant ranges and constant-expression calls are not under contract yet (see DESIGN.md)",
		"math.Pow is an uninterpreted function applied to identical arguments on both sides")
}

func init() {
	registerProp(&propDef{id: "C02", level: "proof", gen: genC02, replay: c02Replay,
		expl: "per operator x static literal type: the real fold.Exit is executed on BinaryNode{op, Integer a, Integer b}; the constant the real compiler pushes for the folded node must equal (kind and value) what the real run-time helper returns on the constants the compiler pushes for a and b, for all a, b; the optimizer may set an error only for division/modulo by a zero literal"})
}

// c02Replay: compiles F(a op b), F taking the literal type of the cell, with
// the optimizer on and off, and compares the results on the real library.
func c02Replay(o *Obligation, dir string) (string, bool) {
	if strings.HasPrefix(o.Name, "optimizer.constExpr[") {
		typ := o.Meta["type"]
		if typ == "" || typ == "untyped" || typ == "interface" {
			typ = "int"
		}
		src := `package expr_test

import (
	"fmt"
	"testing"

	"github.com/antonmedv/expr"
)

// replay of obligation ` + o.Name + `
func TestVerifReplay(t *testing.T) {
	env := map[string]interface{}{"F": func(x ` + typ + `) ` + typ + ` { return x }}
	for _, code := range []string{"F(5)", "F(5) + F(1)", "F(0)"} {
		run := func(constExpr bool) string {
			opts := []expr.Option{expr.Env(env)}
			if constExpr {
				opts = append(opts, expr.ConstExpr("F"))
			}
			p, err := expr.Compile(code, opts...)
			if err != nil {
				return "compile error"
			}
			out, err := expr.Run(p, env)
			if err != nil {
				return "run error"
			}
			return fmt.Sprintf("%T(%v)", out, out)
		}
		on, off := run(true), run(false)
		if on != off {
			t.Fatalf("VIOLATED: %s gives %s with ConstExpr(F) and %s without", code, on, off)
		}
	}
	t.Logf("clause holds on these literals")
}
`
		return runReplay(o, dir, ".", src)
	}
	if strings.HasPrefix(o.Name, "optimizer.fold[array]") {
		src := `package expr_test

import (
	"fmt"
	"testing"

	"github.com/antonmedv/expr"
)

// replay of obligation ` + o.Name + `
func TestVerifReplay(t *testing.T) {
	env := map[string]interface{}{"arr": []interface{}{1, 2, 3}, "ints": []int{1, 2, 3}, "strs": []interface{}{"a", "b"}}
	for _, code := range []string{"[1,2,3] == arr", "arr == [1,2,3]", "[1,2,3] == ints", "['a','b'] == strs", "[1,2,3]"} {
		run := func(opt bool) string {
			p, err := expr.Compile(code, expr.Env(env), expr.Optimize(opt))
			if err != nil {
				return "compile error"
			}
			out, err := expr.Run(p, env)
			if err != nil {
				return "run error"
			}
			return fmt.Sprintf("%T(%v)", out, out)
		}
		on, off := run(true), run(false)
		if on != off {
			t.Fatalf("VIOLATED: %s gives %s with the optimizer and %s without", code, on, off)
		}
	}
	t.Logf("clause holds on these inputs")
}
`
		return runReplay(o, dir, ".", src)
	}
	if strings.HasPrefix(o.Name, "optimizer.constRange/") {
		src := `package expr_test

import (
	"fmt"
	"testing"

	"github.com/antonmedv/expr"
)

// replay of obligation ` + o.Name + `
func TestVerifReplay(t *testing.T) {
	for _, code := range []string{"5..5", "len(3..3)", "7..2", "len(1..1000)", "(2+3)..(10-5)", "len(1..1000000)", "len(1..600000) + len(1..600000)"} {
		run := func(opt bool) string {
			p, err := expr.Compile(code, expr.Optimize(opt))
			if err != nil {
				return "compile error"
			}
			out, err := expr.Run(p, nil)
			if err != nil {
				return "run error"
			}
			return fmt.Sprint(out)
		}
		on, off := run(true), run(false)
		if on != off {
			t.Fatalf("VIOLATED: %s gives %q with the optimizer and %q without", code, on, off)
		}
	}
	t.Logf("clause holds on these inputs")
}
`
		return runReplay(o, dir, ".", src)
	}
	if strings.HasPrefix(o.Name, "optimizer.inRange[") || strings.HasPrefix(o.Name, "optimizer.inArray[") {
		neg := ""
		if strings.Contains(o.Name, "[not-in]") {
			neg = "not "
		}
		var codes []string
		switch {
		case strings.HasPrefix(o.Name, "optimizer.inArray["):
			for _, c := range []string{"NI %sin [1, 2, 3]", "NS %sin ['a', 'b']", "I %sin ['a', 'b']", "S %sin [1, 2]", "Fl %sin [1, 2]", "A %sin ['a', 'b']", "A %sin [1, 2]", "I %sin [1, 2]", "S %sin ['x', 'y']"} {
				codes = append(codes, fmt.Sprintf(c, neg))
			}
		case strings.HasSuffix(o.Name, "left-evaluated-once"):
			codes = append(codes, fmt.Sprintf("f() %sin 1..3", neg))
		default:
			for _, c := range []string{"Fl %sin 1..3", "S %sin 1..3", "NI %sin 1..3", "A %sin 1..3", "I %sin 1..3"} {
				codes = append(codes, fmt.Sprintf(c, neg))
			}
		}
		var quoted []string
		for _, c := range codes {
			quoted = append(quoted, fmt.Sprintf("%q", c))
		}
		src := `package expr_test

import (
	"fmt"
	"testing"

	"github.com/antonmedv/expr"
)

type verifNI int
type verifNS string

// replay of obligation ` + o.Name + `
func TestVerifReplay(t *testing.T) {
	calls := 0
	env := map[string]interface{}{"Fl": 2.5, "S": "x", "I": 2, "NI": verifNI(2), "NS": verifNS("a"), "A": interface{}(2), "f": func() int { calls++; return 2 }}
	for _, code := range []string{` + strings.Join(quoted, ", ") + `} {
		run := func(opt bool) string {
			calls = 0
			p, err := expr.Compile(code, expr.Env(env), expr.Optimize(opt))
			if err != nil {
				return "compile error"
			}
			out, err := expr.Run(p, env)
			if err != nil {
				return "run error"
			}
			return fmt.Sprintf("%v after %d call(s)", out, calls)
		}
		on, off := run(true), run(false)
		if on != off {
			t.Fatalf("VIOLATED: %s gives %q with the optimizer and %q without", code, on, off)
		}
	}
	t.Logf("clause holds on these inputs")
}
`
		return runReplay(o, dir, ".", src)
	}
	op, typ := o.Meta["op"], o.Meta["type"]
	if op == "" || typ == "untyped" || typ == "interface" {
		return "", false
	}
	if strings.HasPrefix(op, "unary") {
		sign := strings.TrimPrefix(op, "unary")
		var cases []string
		for _, l := range []string{"4", "0", "1", "300", "9007199254740993"} {
			cases = append(cases, fmt.Sprintf("%q", "F("+sign+l+")"), fmt.Sprintf("%q", "F("+sign+l+" * 3)"))
		}
		src := fmt.Sprintf(`package expr_test

import (
	"fmt"
	"testing"

	"github.com/antonmedv/expr"
)

// replay of obligation %s
func TestVerifReplay(t *testing.T) {
	env := map[string]interface{}{"F": func(x %s) %s { return x }}
	for _, code := range []string{%s} {
		run := func(opt bool) string {
			p, err := expr.Compile(code, expr.Env(env), expr.Optimize(opt))
			if err != nil {
				return "compile error"
			}
			out, err := expr.Run(p, env)
			if err != nil {
				return "run error"
			}
			return fmt.Sprintf("%%T(%%v)", out, out)
		}
		on, off := run(true), run(false)
		if on != off && !(on == "compile error" && off == "run error") {
			t.Fatalf("VIOLATED: %%s gives %%s with the optimizer and %%s without", code, on, off)
		}
	}
	t.Logf("clause holds on these literals")
}
`, o.Name, typ, typ, strings.Join(cases, ", "))
		return runReplay(o, dir, ".", src)
	}
	va, _ := modelValue(o.Model, o.Meta["xa"])
	vb, _ := modelValue(o.Model, o.Meta["xb"])
	a, b := signed(va.bits, 64), signed(vb.bits, 64)
	// literals are non-negative in the source; use the model's magnitudes when small, else boundary values
	lits := [][2]string{{a.String(), b.String()}, {"1", "2"}, {"1", "0"}, {"300", "7"}, {"9007199254740993", "2"}, {"7", "2"}}
	var cases []string
	for _, l := range lits {
		if !strings.HasPrefix(l[0], "-") && !strings.HasPrefix(l[1], "-") {
			cases = append(cases, fmt.Sprintf("%q", fmt.Sprintf("F(%s %s %s)", l[0], op, l[1])))
		}
	}
	src := fmt.Sprintf(`package expr_test

import (
	"fmt"
	"testing"

	"github.com/antonmedv/expr"
)

// replay of obligation %s
func TestVerifReplay(t *testing.T) {
	env := map[string]interface{}{"F": func(x %s) %s { return x }}
	for _, code := range []string{%s} {
		run := func(opt bool) string {
			p, err := expr.Compile(code, expr.Env(env), expr.Optimize(opt))
			if err != nil {
				return "compile error"
			}
			out, err := expr.Run(p, env)
			if err != nil {
				return "run error"
			}
			return fmt.Sprintf("%%T(%%v)", out, out)
		}
		on, off := run(true), run(false)
		if on != off && !(on == "compile error" && off == "run error") {
			t.Fatalf("VIOLATED: %%s gives %%s with the optimizer and %%s without", code, on, off)
		}
	}
	t.Logf("clause holds on these literals")
}
`, o.Name, typ, typ, strings.Join(cases, ", "))
	return runReplay(o, dir, ".", src)
}

// genInRange: (*inRange).Exit on  L in a..b  /  L not in a..b  with integer
// literals a, b and an arbitrary left operand L.
func genInRange(w *World, res *CheckResult) {
	fn := w.Func("optimizer.inRange.Exit")
	if fn == nil {
		res.Obls = append(res.Obls, missingObl("optimizer.inRange.Exit/exists", "function not found"))
		return
	}
	res.Functions = append(res.Functions, "optimizer.inRange.Exit")
	lay := astLayout{w}
	for _, opname := range []string{"in", "not in"} {
		e := NewExec(w)
		e.SafeMode = func(f *ssa.Function) string { return "panics" }
		e.InvokeHook = func(e *Exec, st *State, fr *Frame, cc *ssa.CallCommon, recv *Value, args []*Value, k func(*State, []*Value)) bool {
			if cc.Method.Name() == "Type" && ctorOf(recv.One()) == "" {
				k(st, []*Value{{T: cc.Signature().Results().At(0).Type(), L: []*Term{UF("node_type", SInt, recv.One())}}})
				return true
			}
			return false
		}
		st := NewState()
		e.paramMode = true
		rv := e.havocValue(st, fn.Params[0].Type(), "r")
		slot := e.havocValue(st, fn.Params[1].Type(), "node")
		e.paramMode = false
		st.Assume(Not(Eq(slot.One(), NilLoc)))
		e.initFacts(st, fn, e.entryEnv(st, fn, []*Value{rv, slot}, nil))
		bn, rg, fa, ta := FreshPre(st, "bin"), FreshPre(st, "range"), FreshPre(st, "from"), FreshPre(st, "to")
		objs := []*Term{bn, rg, fa, ta, slot.One()}
		for i := range objs {
			for j := i + 1; j < len(objs); j++ {
				AssumeDistinctObjs(st, objs[i], objs[j])
			}
		}
		L := Fresh("left", SVal)
		st.Assume(Not(Eq(L, VNil)))
		old := lay.ptrVal("BinaryNode", bn)
		st.Store(slot.One(), old)
		st.Store(LocField(bn, lay.off("BinaryNode", "Operator")), StrLit(opname))
		st.Store(LocField(bn, lay.off("BinaryNode", "Left")), L)
		st.Store(LocField(bn, lay.off("BinaryNode", "Right")), lay.ptrVal("BinaryNode", rg))
		st.Store(LocField(rg, lay.off("BinaryNode", "Operator")), StrLit(".."))
		fromV, toV := lay.ptrVal("IntegerNode", fa), lay.ptrVal("IntegerNode", ta)
		st.Store(LocField(rg, lay.off("BinaryNode", "Left")), fromV)
		st.Store(LocField(rg, lay.off("BinaryNode", "Right")), toV)
		name := "optimizer.inRange[" + strings.ReplaceAll(opname, " ", "-") + "]"
		binT := types.NewPointer(w.namedType("ast", "BinaryNode"))
		unT := types.NewPointer(w.namedType("ast", "UnaryNode"))
		for _, o := range e.Run(fn, []*Value{rv, slot}, st, nil) {
			if o.Panic != nil {
				e.AddVC(name+"/post:shape", "post", fn.String(), o.St, True, "the rewrite must not fail")
				continue
			}
			s := o.St
			cur := s.Load(slot.One(), SVal)
			if s.Simp(Eq(cur, old)) == True {
				continue
			}
			top := cur
			shape := True
			if opname == "not in" {
				up := VSel("ptr_of", cur)
				shape = And(shape, dynTypeTest(cur, unT), Eq(s.Load(LocField(up, lay.off("UnaryNode", "Operator")), SStr), StrLit("not")))
				top = s.Load(LocField(up, lay.off("UnaryNode", "Node")), SVal)
			}
			tp := VSel("ptr_of", top)
			l1 := s.Load(LocField(tp, lay.off("BinaryNode", "Left")), SVal)
			r1 := s.Load(LocField(tp, lay.off("BinaryNode", "Right")), SVal)
			lp, rp := VSel("ptr_of", l1), VSel("ptr_of", r1)
			fld := func(p *Term, f, srt string) *Term { return s.Load(LocField(p, lay.off("BinaryNode", f)), srt) }
			shape = And(shape, dynTypeTest(top, binT), Eq(fld(tp, "Operator", SStr), StrLit("and")),
				dynTypeTest(l1, binT), Eq(fld(lp, "Operator", SStr), StrLit(">=")), Eq(fld(lp, "Left", SVal), L), Eq(fld(lp, "Right", SVal), fromV),
				dynTypeTest(r1, binT), Eq(fld(rp, "Operator", SStr), StrLit("<=")), Eq(fld(rp, "Left", SVal), L), Eq(fld(rp, "Right", SVal), toV))
			e.AddVC(name+"/post:shape", "post", fn.String(), s, Not(shape), "L in a..b becomes (L >= a) and (L <= b), wrapped in not for 'not in'")
			// the two-sided comparison equals membership only for an int left operand (C18 lemma): the rewrite needs that guard
			lt := UF("node_type", SInt, L)
			e.AddVC(name+"/post:int-guard", "post", fn.String(), s, Not(Or(Eq(lt, IntLit(0)), Eq(lt, typeCodeTerm(types.Typ[types.Int])))), "the rewrite fires only when the left operand is statically exactly int (or the tree carries no types at all: optimizer called on an unchecked tree)")
			// the left operand occurs twice in the replacement: it is evaluated twice
			e.AddVC(name+"/post:left-evaluated-once", "post", fn.String(), s, Eq(fld(lp, "Left", SVal), fld(rp, "Left", SVal)), "the left operand is evaluated once, as in the original expression")
		}
		res.Obls = append(res.Obls, e.obls...)
		res.Assumptions = append(res.Assumptions, e.Notes()...)
	}
}
