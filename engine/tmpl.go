package main

// Layer B, part 1: emission templates. Every code-generation method of the
// compiler is executed symbolically (Layer G) with the emission helpers
// intercepted; what it appends to the bytecode is recorded, per control path,
// as a trace of Emit / Seg (recursive compile) / Rep (compile in a range loop)
// / Patch items with symbolic positions. The trace is recomputed from the
// current source on every run.

import (
	"fmt"
	"go/types"
	"sort"
	"strings"

	"golang.org/x/tools/go/ssa"
)

type tItem struct {
	Kind    string // emit | seg | rep | patch
	Op      int
	OpName  string
	Operand string // "", const, ph, back, cast
	Const   *Term  // constant value (Val) for const operands
	ConstT  string // static Go type of the value given to makeConstant
	Raw     *Term  // cast operand value (uint16)
	Pos     *Term  // position of the opcode byte
	Cur     *Term  // Pos+1: what emit returns (placeholder handle)
	To      *Term  // back: position jumped to
	Child   *Term  // seg: child node (Val); rep: address of the slice field
	N       *Term  // rep: number of elements; seg: its length in bytes
	Ref     int    // patch: index of the emit item whose operand is patched
}

type tTrace struct {
	Method string
	Sig    string
	Items  []tItem
	PC     []*Term
	Start  *Term
	End    *Term
	Failed string
	Panics bool
	St     *State
	Node   *Term // the node parameter (pointer to the node struct)
	C      *Term
}

type tAcc struct{ items []tItem }

func (a *tAcc) add(it tItem) *tAcc {
	n := &tAcc{items: append(append([]tItem(nil), a.items...), it)}
	return n
}

type constTag struct {
	val *Term
	typ string
}
type phTag struct{}
type backTag struct{ to *Term }
type rawTag struct{ val *Term }

var opNames map[int]string
var operandTags = map[*Term]interface{}{}

func loadOpNames(w *World) {
	opNames = map[int]string{}
	sp := w.SSAPkgs["vm"]
	if sp == nil {
		return
	}
	for n, m := range sp.Members {
		if c, ok := m.(*ssa.NamedConst); ok && strings.HasPrefix(n, "Op") {
			if b, ok := c.Type().Underlying().(*types.Basic); ok && b.Kind() == types.Uint8 {
				v := c.Value.Int64()
				opNames[int(v)] = n
			}
		}
	}
}

func compilerFieldOffset(w *World, name string) int {
	T := w.namedType("compiler", "compiler")
	st := T.Underlying().(*types.Struct)
	for i := 0; i < st.NumFields(); i++ {
		if st.Field(i).Name() == name {
			return fieldLeafOffset(st, i)
		}
	}
	panic("compiler field " + name)
}

type tmplHooks struct {
	setPos func(st *State, c *Term, pos *Term)
	acc    func(st *State) *tAcc
	setMethod func(string)
}

// extractTemplates runs every node method of the compiler and returns its traces.
func extractTemplates(w *World, e *Exec) []*tTrace {
	h := installTemplateHooks(w, e)
	return runTemplateMethods(w, e, h)
}

// installTemplateHooks intercepts the emission helpers of the compiler.
func installTemplateHooks(w *World, e *Exec) *tmplHooks {
	loadOpNames(w)
	bcOff := compilerFieldOffset(w, "bytecode")
	setPos := func(st *State, c *Term, pos *Term) {
		st.ghost["pos"] = pos
		st.Store(LocField(c, bcOff+1), pos)
	}
	acc := func(st *State) *tAcc {
		if a, ok := st.aux.(*tAcc); ok {
			return a
		}
		return &tAcc{}
	}
	fail := func(st *State, why string) {
		if st.ghost["fail"] == nil {
			st.ghost["fail"] = StrLit(why)
		}
	}
	byteSlice := func(st *State, n int64, tag interface{}, T types.Type) *Value {
		o := st.NewObj("operand")
		operandTags[o] = tag
		return &Value{T: T, L: []*Term{MkLoc(o, IntLit(0), BV64(0)), BV64(n), BV64(n)}, Tag: tag}
	}
	e.SafeMode = func(fn *ssa.Function) string { return "panics" }
	e.CallHook = func(e *Exec, st *State, fr *Frame, cc *ssa.CallCommon, callee *ssa.Function, args []*Value, k func(*State, []*Value)) bool {
		name := shortName(callee)
		switch name {
		case "compiler.compiler.emit":
			c := args[0].One()
			pos := st.ghost["pos"]
			op := st.Simp(args[1].One())
			it := tItem{Kind: "emit", Pos: pos, Cur: BVBin("bvadd", pos, BV64(1)), Op: -1}
			if op.BV != nil {
				it.Op = int(op.BV.Int64())
				it.OpName = opNames[it.Op]
			} else {
				// the opcode is a run-time choice between literals (op := OpCall; if Fast {...})
				fail(st, "emit with an opcode that is not a literal on this path")
			}
			b := args[2]
			ln := st.Simp(b.L[1])
			tag := b.Tag
			if tag == nil {
				// the operand bytes went through a variable: recover the provenance from the object
				tag = operandTags[LObj(b.L[0])]
			}
			switch t := tag.(type) {
			case constTag:
				it.Operand, it.Const, it.ConstT = "const", t.val, t.typ
			case phTag:
				it.Operand = "ph"
			case backTag:
				it.Operand, it.To = "back", t.to
			case rawTag:
				it.Operand, it.Raw = "cast", t.val
			default:
				if !(ln.BV != nil && ln.BV.Sign() == 0) {
					fail(st, "emit with operand bytes of unknown provenance")
				}
			}
			if ln.BV == nil {
				fail(st, "emit with operand of unknown length")
				ln = BV64(0)
			}
			st.aux = acc(st).add(it)
			setPos(st, c, BVBin("bvadd", it.Cur, ln))
			k(st, []*Value{{T: tInt, L: []*Term{it.Cur}}})
			return true
		case "compiler.compiler.makeConstant":
			typ := "?"
			if mi, ok := cc.Args[1].(*ssa.MakeInterface); ok {
				typ = types.TypeString(mi.X.Type(), func(p *types.Package) string { return p.Name() })
			} else {
				typ = "interface{}"
			}
			k(st, []*Value{byteSlice(st, 2, constTag{args[1].One(), typ}, callee.Signature.Results().At(0).Type())})
			return true
		case "compiler.compiler.placeholder":
			k(st, []*Value{byteSlice(st, 2, phTag{}, callee.Signature.Results().At(0).Type())})
			return true
		case "compiler.encode":
			k(st, []*Value{byteSlice(st, 2, rawTag{args[0].One()}, callee.Signature.Results().At(0).Type())})
			return true
		case "compiler.compiler.calcBackwardJump":
			k(st, []*Value{byteSlice(st, 2, backTag{args[1].One()}, callee.Signature.Results().At(0).Type())})
			return true
		case "compiler.compiler.patchJump":
			a := acc(st)
			ph := args[1].One()
			ref := -1
			for i, it := range a.items {
				if it.Kind == "emit" && it.Operand == "ph" && it.Cur == ph {
					ref = i
				}
			}
			if ref < 0 {
				fail(st, "patchJump of a value that is not the handle of a pending placeholder")
			}
			for _, it := range a.items {
				if it.Kind == "patch" && it.Ref == ref {
					fail(st, "placeholder patched twice")
				}
			}
			st.aux = a.add(tItem{Kind: "patch", Ref: ref, Pos: st.ghost["pos"]})
			k(st, nil)
			return true
		case "compiler.compiler.compile":
			c := args[0].One()
			pos := st.ghost["pos"]
			n := Fresh("seglen", SBV(64))
			st.Assume(BVCmp("bvsge", n, BV64(0)))
			st.Assume(BVCmp("bvslt", n, BV64(1<<40)))
			st.aux = acc(st).add(tItem{Kind: "seg", Child: args[1].One(), Pos: pos, N: n})
			setPos(st, c, BVBin("bvadd", pos, n))
			k(st, nil)
			return true
		}
		return false
	}
	e.InvokeHook = func(e *Exec, st *State, fr *Frame, cc *ssa.CallCommon, recv *Value, args []*Value, k func(*State, []*Value)) bool {
		if !strings.HasSuffix(cc.Value.Type().String(), "ast.Node") {
			return false
		}
		switch cc.Method.Name() {
		case "Type":
			k(st, []*Value{{T: cc.Signature().Results().At(0).Type(), L: []*Term{UF("node_type", SInt, recv.One())}}})
			return true
		case "Location":
			T := cc.Signature().Results().At(0).Type()
			k(st, []*Value{{T: T, L: []*Term{UF("node_line", SBV(64), recv.One()), UF("node_col", SBV(64), recv.One())}}})
			return true
		}
		return false
	}
	// range loops: for _, x := range node.F { c.compile(x) }
	type loopCtx struct {
		acc0  *tAcc
		name  string
		elem0 *Term
	}
	var inBody *loopCtx
	var curMethod string
	e.LoopHook = func(e *Exec, st *State, fr *Frame, b, pred *ssa.BasicBlock) bool {
		if !strings.HasPrefix(shortName(fr.fn), "compiler.compiler.") {
			return false
		}
		if pred != nil && isBackEdge(pred, b) {
			if inBody == nil {
				return false
			}
			a := acc(st)
			ok := len(a.items) == len(inBody.acc0.items)+1 && a.items[len(a.items)-1].Kind == "seg"
			if !ok {
				e.AddVC(inBody.name+"/step", "inv-pres", fr.fn.String(), st, True, "one iteration of the range loop must compile exactly the current element")
			} else {
				e.AddVC(inBody.name+"/step", "inv-pres", fr.fn.String(), st, Not(Eq(a.items[len(a.items)-1].Child, inBody.elem0)), "one iteration compiles exactly the element at the loop index")
			}
			return true
		}
		var fa *ssa.FieldAddr
		var phi *ssa.Phi
		var lenV ssa.Value
		for bb := range loopBody(b) {
			for _, in := range bb.Instrs {
				if ia, ok := in.(*ssa.IndexAddr); ok {
					if ld, ok := ia.X.(*ssa.UnOp); ok {
						if f, ok := ld.X.(*ssa.FieldAddr); ok {
							fa = f
						}
					}
				}
			}
		}
		for _, in := range b.Instrs {
			if p, ok := in.(*ssa.Phi); ok {
				phi = p
			}
			if bo, ok := in.(*ssa.BinOp); ok {
				if _, isConst := bo.Y.(*ssa.Const); !isConst {
					lenV = bo.Y
				}
			}
		}
		name := "tmpl:" + curMethod + "/loop"
		if fa == nil || phi == nil || lenV == nil {
			e.AddVC(name+"/shape", "post", fr.fn.String(), st, True, "range loop does not have the shape 'for _, x := range node.F { c.compile(x) }'")
			return true
		}
		stt := fa.X.Type().Underlying().(*types.Pointer).Elem().Underlying().(*types.Struct)
		field := stt.Field(fa.Field).Name()
		name = "tmpl:" + curMethod + "/loop[" + field + "]"
		nptr := e.val(st, fr, fa.X).One()
		hdr := LocField(nptr, fieldLeafOffset(stt, fa.Field))
		S := e.loadT(st, hdr, stt.Field(fa.Field).Type())
		ln := e.val(st, fr, lenV).One()
		e.Assert(name+"/len", "inv-init", fr.fn.String(), st, Eq(ln, S[1]), "the loop bound is the length of the slice whose elements are compiled")
		c := fr.vals[fr.fn.Params[0]].One()
		{
			s2, f2 := st.Clone(), fr.Clone()
			kk := Fresh("k", SBV(64))
			s2.Assume(BVCmp("bvsge", kk, BV64(-1)))
			s2.Assume(BVCmp("bvslt", kk, ln))
			s2.Assume(BVCmp("bvslt", BVBin("bvadd", kk, BV64(1)), ln))
			f2.vals[phi] = &Value{T: phi.Type(), L: []*Term{kk}}
			p2 := Fresh("pos", SBV(64))
			setPos(s2, c, p2)
			elemT := stt.Field(fa.Field).Type().Underlying().(*types.Slice).Elem()
			el := e.loadT(s2, LocIndex(S[0], BVBin("bvadd", kk, BV64(1))), elemT)
			save := inBody
			inBody = &loopCtx{acc0: acc(s2), name: name, elem0: el[0]}
			e.runFrom(s2, f2, b, 0)
			inBody = save
		}
		fr.vals[phi] = &Value{T: phi.Type(), L: []*Term{BVBin("bvsub", ln, BV64(1))}}
		pos := st.ghost["pos"]
		tot := Fresh("replen", SBV(64))
		st.Assume(BVCmp("bvsge", tot, BV64(0)))
		st.Assume(BVCmp("bvslt", tot, BV64(1<<40)))
		st.aux = acc(st).add(tItem{Kind: "rep", Child: hdr, N: ln, Pos: pos})
		setPos(st, c, BVBin("bvadd", pos, tot))
		e.runFrom(st, fr, b, 0)
		return true
	}
	return &tmplHooks{setPos: setPos, acc: acc, setMethod: func(m string) { curMethod = m }}
}

func runTemplateMethods(w *World, e *Exec, h *tmplHooks) []*tTrace {
	var traces []*tTrace
	setPos, acc := h.setPos, h.acc
	var curMethod string
	var methods []string
	for n, fn := range w.Funcs {
		if strings.HasPrefix(n, "compiler.compiler.") && strings.HasSuffix(n, "Node") && fn.Signature.Params().Len() == 1 {
			methods = append(methods, n)
		}
	}
	sort.Strings(methods)
	for _, mname := range methods {
		fn := w.Funcs[mname]
		curMethod = strings.TrimPrefix(mname, "compiler.compiler.")
		h.setMethod(curMethod)
		st := NewState()
		e.paramMode = true
		cv := e.havocValue(st, fn.Params[0].Type(), "c")
		nv := e.havocValue(st, fn.Params[1].Type(), "node")
		e.paramMode = false
		st.Assume(Not(Eq(cv.One(), NilLoc)))
		st.Assume(Not(Eq(nv.One(), NilLoc)))
		AssumeDistinctObjs(st, cv.One(), nv.One())
		p0 := Fresh("pos0", SBV(64))
		st.Assume(BVCmp("bvsge", p0, BV64(0)))
		st.Assume(BVCmp("bvslt", p0, BV64(1<<40)))
		setPos(st, cv.One(), p0)
		st.aux = &tAcc{}
		e.initFacts(st, fn, e.entryEnv(st, fn, []*Value{cv, nv}, nil))
		method := curMethod
		e.call(st, fn, []*Value{cv, nv}, nil, 0, nil,
			func(st *State, _ []*Value) {
				tr := &tTrace{Method: method, Items: acc(st).items, PC: st.pc, Start: p0, End: st.ghost["pos"], St: st, Node: nv.One(), C: cv.One()}
				if f := st.ghost["fail"]; f != nil {
					tr.Failed = strLitText[f]
				}
				traces = append(traces, tr)
			},
			func(st *State, pv *Term) {
				traces = append(traces, &tTrace{Method: method, Items: acc(st).items, PC: st.pc, Start: p0, End: st.ghost["pos"], Panics: true, St: st, Node: nv.One(), C: cv.One()})
			})
	}
	for _, t := range traces {
		t.Sig = traceSig(t)
	}
	return traces
}

func traceSig(t *tTrace) string {
	var parts []string
	for _, it := range t.Items {
		switch it.Kind {
		case "emit":
			s := strings.TrimPrefix(it.OpName, "Op")
			if it.Operand == "const" && it.Const != nil {
				if c := ctorOf(it.Const); c == "VStr" && strLits[it.Const.Args[0]] {
					s += "'" + strLitText[it.Const.Args[0]] + "'"
				}
			}
			if it.Operand == "ph" {
				s += fmt.Sprintf("^%d", phIndex(t, it))
			}
			parts = append(parts, s)
		case "seg":
			parts = append(parts, "Seg")
		case "rep":
			parts = append(parts, "Rep")
		case "patch":
			parts = append(parts, fmt.Sprintf("@%d", phIndex(t, t.Items[it.Ref])))
		}
	}
	s := t.Method + ":" + strings.Join(parts, ".")
	if t.Panics {
		s += "!panic"
	}
	return s
}

func phIndex(t *tTrace, it tItem) int {
	n := 0
	for _, x := range t.Items {
		if x.Kind == "emit" && x.Operand == "ph" {
			n++
			if x.Cur == it.Cur {
				return n
			}
		}
	}
	return 0
}

func init() {
	registerProp(&propDef{id: "T05", level: "other", gen: func(w *World, res *CheckResult) {
		e := NewExec(w)
		trs := extractTemplates(w, e)
		sigs := map[string]int{}
		for _, t := range trs {
			sigs[t.Sig+" "+t.Failed]++
		}
		var ks []string
		for k := range sigs {
			ks = append(ks, k)
		}
		sort.Strings(ks)
		for _, k := range ks {
			fmt.Printf("TRACE x%d %s\n", sigs[k], k)
		}
		res.Obls = append(res.Obls, e.obls...)
		res.Assumptions = append(res.Assumptions, e.Notes()...)
	}, expl: "template extraction (development view)"})
}
