package main

import (
	"fmt"
	"go/types"
	"sort"
	"strings"

	"golang.org/x/tools/go/ssa"
)

// Value is the symbolic value of an SSA value: the flattened leaves of its Go
// type, plus Go-level knowledge for function values.
type Value struct {
	T   types.Type
	L   []*Term
	Fn  *ssa.Function // statically known function (possibly with bindings)
	Bnd []*Value      // closure bindings
	Bi  *ssa.Builtin
	Tag interface{} // driver-owned provenance (e.g. where an operand's bytes came from)
}

func (v *Value) One() *Term {
	if len(v.L) != 1 {
		panic(fmt.Sprintf("value of type %v has %d leaves, want 1", v.T, len(v.L)))
	}
	return v.L[0]
}

func isNamed(t types.Type, pkg, name string) bool {
	n, ok := t.(*types.Named)
	if !ok {
		if a, ok2 := t.(*types.Alias); ok2 {
			return isNamed(types.Unalias(a), pkg, name)
		}
		return false
	}
	o := n.Obj()
	return o.Name() == name && o.Pkg() != nil && o.Pkg().Path() == pkg
}

// leafSorts flattens a Go type into SMT sorts.
func leafSorts(t types.Type) []string {
	t = types.Unalias(t)
	if isNamed(t, "reflect", "Type") {
		return []string{SInt}
	}
	if isNamed(t, "reflect", "Value") {
		return []string{SRV}
	}
	switch u := t.Underlying().(type) {
	case *types.Basic:
		switch u.Kind() {
		case types.Bool, types.UntypedBool:
			return []string{SBool}
		case types.Int8, types.Uint8:
			return []string{SBV(8)}
		case types.Int16, types.Uint16:
			return []string{SBV(16)}
		case types.Int32, types.Uint32, types.UntypedRune:
			return []string{SBV(32)}
		case types.Int, types.Uint, types.Int64, types.Uint64, types.Uintptr, types.UntypedInt:
			return []string{SBV(64)}
		case types.Float32:
			return []string{SF32}
		case types.Float64, types.UntypedFloat:
			return []string{SF64}
		case types.String, types.UntypedString:
			return []string{SStr}
		case types.UnsafePointer:
			return []string{SLoc}
		case types.UntypedNil:
			return []string{SVal}
		case types.Invalid:
			return nil
		}
		panic("unsupported basic type " + u.String())
	case *types.Pointer, *types.Map, *types.Chan, *types.Signature:
		return []string{SLoc}
	case *types.Slice:
		return []string{SLoc, SBV(64), SBV(64)}
	case *types.Interface:
		return []string{SVal}
	case *types.Struct:
		var out []string
		for i := 0; i < u.NumFields(); i++ {
			out = append(out, leafSorts(u.Field(i).Type())...)
		}
		return out
	case *types.Array:
		if u.Len() > 16 {
			panic("unsupported large array value " + t.String())
		}
		var out []string
		es := leafSorts(u.Elem())
		for i := int64(0); i < u.Len(); i++ {
			out = append(out, es...)
		}
		return out
	case *types.Tuple:
		var out []string
		for i := 0; i < u.Len(); i++ {
			out = append(out, leafSorts(u.At(i).Type())...)
		}
		return out
	}
	panic("unsupported type " + t.String())
}

func numLeaves(t types.Type) int { return len(leafSorts(t)) }

func fieldLeafOffset(st *types.Struct, i int) int {
	off := 0
	for j := 0; j < i; j++ {
		off += numLeaves(st.Field(j).Type())
	}
	return off
}

func isSigned(t types.Type) bool {
	b, ok := t.Underlying().(*types.Basic)
	return ok && b.Info()&types.IsInteger != 0 && b.Info()&types.IsUnsigned == 0
}
func isInteger(t types.Type) bool {
	b, ok := t.Underlying().(*types.Basic)
	return ok && b.Info()&types.IsInteger != 0
}
func isFloat(t types.Type) bool {
	b, ok := t.Underlying().(*types.Basic)
	return ok && b.Info()&types.IsFloat != 0
}
func isString(t types.Type) bool {
	b, ok := t.Underlying().(*types.Basic)
	return ok && b.Info()&types.IsString != 0
}
func isBoolean(t types.Type) bool {
	b, ok := t.Underlying().(*types.Basic)
	return ok && b.Info()&types.IsBoolean != 0
}

// ---- type codes

var (
	typeCodes   = map[string]int{}
	typeByCode  = map[int]types.Type{}
	typeCodeSeq = 100
)

func typeKey(t types.Type) string {
	return types.TypeString(types.Unalias(t), nil)
}

func typeCode(t types.Type) int {
	k := typeKey(t)
	if c, ok := typeCodes[k]; ok {
		return c
	}
	typeCodeSeq++
	typeCodes[k] = typeCodeSeq
	typeByCode[typeCodeSeq] = t
	return typeCodeSeq
}

func typeCodeTerm(t types.Type) *Term { return IntLit(int64(typeCode(t))) }

// reflect.Kind numbers
var reflectKind = map[types.BasicKind]int{
	types.Bool: 1, types.Int: 2, types.Int8: 3, types.Int16: 4, types.Int32: 5, types.Int64: 6,
	types.Uint: 7, types.Uint8: 8, types.Uint16: 9, types.Uint32: 10, types.Uint64: 11, types.Uintptr: 12,
	types.Float32: 13, types.Float64: 14, types.Complex64: 15, types.Complex128: 16,
	types.String: 24, types.UnsafePointer: 26,
}

func kindOfType(t types.Type) int {
	switch u := t.Underlying().(type) {
	case *types.Basic:
		return reflectKind[u.Kind()]
	case *types.Array:
		return 17
	case *types.Chan:
		return 18
	case *types.Signature:
		return 19
	case *types.Interface:
		return 20
	case *types.Map:
		return 21
	case *types.Pointer:
		return 22
	case *types.Slice:
		return 23
	case *types.Struct:
		return 25
	}
	return 0
}

// typeCodeFacts: rt_kind facts for every type code known so far.
func typeCodeFacts() []*Term {
	var cs []int
	for _, c := range typeCodes {
		cs = append(cs, c)
	}
	sort.Ints(cs)
	var out []*Term
	for _, c := range cs {
		out = append(out, Eq(App("rt_kind", SBV(64), IntLit(int64(c))), BV64(int64(kindOfType(typeByCode[c])))))
	}
	return out
}

// basicCtor maps a predeclared basic type to its Val constructor.
func basicCtor(b *types.Basic) (ctor, sel string) {
	switch b.Kind() {
	case types.Bool, types.UntypedBool:
		return "VBool", "b_of"
	case types.Int, types.UntypedInt:
		return "VInt", "int_of"
	case types.Int8:
		return "VInt8", "int8_of"
	case types.Int16:
		return "VInt16", "int16_of"
	case types.Int32, types.UntypedRune:
		return "VInt32", "int32_of"
	case types.Int64:
		return "VInt64", "int64_of"
	case types.Uint, types.Uintptr:
		return "VUint", "uint_of"
	case types.Uint8:
		return "VUint8", "uint8_of"
	case types.Uint16:
		return "VUint16", "uint16_of"
	case types.Uint32:
		return "VUint32", "uint32_of"
	case types.Uint64:
		return "VUint64", "uint64_of"
	case types.Float32:
		return "VF32", "f32_of"
	case types.Float64, types.UntypedFloat:
		return "VF64", "f64_of"
	case types.String, types.UntypedString:
		return "VStr", "str_of"
	}
	return "", ""
}

func isPredeclared(t types.Type) bool {
	t = types.Unalias(t)
	_, ok := t.(*types.Basic)
	return ok
}

// dynTypeTest: the condition that Val v has dynamic (concrete) type T.
func dynTypeTest(v *Term, T types.Type) *Term {
	T = types.Unalias(T)
	if isNamed(T, "reflect", "Value") {
		return And(Is("VBox", v), Eq(VSel("box_typ", v), typeCodeTerm(T)))
	}
	switch u := T.Underlying().(type) {
	case *types.Basic:
		if u.Kind() == types.UnsafePointer {
			return And(Is("VPtr", v), Eq(VSel("ptr_typ", v), typeCodeTerm(T)))
		}
		c, _ := basicCtor(u)
		if isPredeclared(T) {
			return Is(c, v)
		}
		return And(Is("VNamed", v), Eq(VSel("nm_typ", v), typeCodeTerm(T)))
	case *types.Pointer, *types.Map, *types.Chan, *types.Signature:
		return And(Is("VPtr", v), Eq(VSel("ptr_typ", v), typeCodeTerm(T)))
	case *types.Slice:
		return And(Is("VSlice", v), Eq(VSel("sl_typ", v), typeCodeTerm(T)))
	case *types.Struct, *types.Array:
		return And(Is("VBox", v), Eq(VSel("box_typ", v), typeCodeTerm(T)))
	}
	panic("dynTypeTest: unsupported " + T.String())
}

// boxSimple wraps leaves of a non-struct concrete type T into a Val.
// Struct/array boxing needs the heap and is done by the executor.
func boxSimple(T types.Type, L []*Term) *Term {
	T = types.Unalias(T)
	if isNamed(T, "reflect", "Type") {
		panic("boxSimple on reflect.Type (interface)")
	}
	switch u := T.Underlying().(type) {
	case *types.Basic:
		if u.Kind() == types.UnsafePointer {
			return VCtor("VPtr", typeCodeTerm(T), L[0])
		}
		if u.Kind() == types.UntypedNil {
			return VNil
		}
		c, _ := basicCtor(u)
		b := VCtor(c, L[0])
		if isPredeclared(T) {
			return b
		}
		return VCtor("VNamed", typeCodeTerm(T), b)
	case *types.Pointer, *types.Map, *types.Chan, *types.Signature:
		return VCtor("VPtr", typeCodeTerm(T), L[0])
	case *types.Slice:
		return VCtor("VSlice", typeCodeTerm(T), L[0], L[1], L[2])
	}
	panic("boxSimple: unsupported " + T.String())
}

// unboxSimple extracts the leaves of concrete type T from Val v (assuming the
// dynamic type test holds).
func unboxSimple(T types.Type, v *Term) []*Term {
	T = types.Unalias(T)
	switch u := T.Underlying().(type) {
	case *types.Basic:
		if u.Kind() == types.UnsafePointer {
			return []*Term{VSel("ptr_of", v)}
		}
		_, s := basicCtor(u)
		if isPredeclared(T) {
			return []*Term{VSel(s, v)}
		}
		return []*Term{VSel(s, VSel("nm_of", v))}
	case *types.Pointer, *types.Map, *types.Chan, *types.Signature:
		return []*Term{VSel("ptr_of", v)}
	case *types.Slice:
		return []*Term{VSel("sl_ptr", v), VSel("sl_len", v), VSel("sl_cap", v)}
	}
	panic("unboxSimple: unsupported " + T.String())
}

// zeroLeaves returns the zero value of T.
func zeroLeaves(T types.Type) []*Term {
	var out []*Term
	for _, s := range leafSorts(T) {
		out = append(out, zeroOfSort(s))
	}
	return out
}

func zeroOfSort(s string) *Term {
	switch s {
	case SBool:
		return False
	case SStr:
		return StrLit("")
	case SVal:
		return VNil
	case SLoc:
		return NilLoc
	case SInt:
		return IntLit(0)
	case SF32:
		return App("(_ to_fp 8 24)", SF32, BVu(0, 32))
	case SF64:
		return App("(_ to_fp 11 53)", SF64, BVu(0, 64))
	case SRV:
		return Leaf("RVZero", SRV)
	}
	if w := bvWidth(s); w > 0 {
		return BVu(0, w)
	}
	panic("zeroOfSort " + s)
}

func sortKey(s string) string {
	r := strings.NewReplacer("(", "", ")", "", " ", "_")
	return r.Replace(s)
}
