package main

import (
	"fmt"
	"go/types"
	"strings"

	"golang.org/x/tools/go/ssa"
)

// genInArray: (*inArray).Exit on  L in [n0, n1, ...]  /  L not in [...]  with
// an arbitrary left operand L and an arbitrary non-empty element list.
// The rewrite replaces the array by a constant map[int]struct{} or
// map[string]struct{}; membership by map lookup equals membership by
// comparison only when the left operand is an int (string) cell, i.e. (typing
// assumption) when its static type is exactly int (string); for any other
// left operand the lookup fails at run time where the scan answers false.
// The element loops are cut (no invariant): the obligations here depend only
// on the guards taken before them.
func genInArray(w *World, res *CheckResult) {
	fn := w.Func("optimizer.inArray.Exit")
	if fn == nil {
		res.Obls = append(res.Obls, missingObl("optimizer.inArray.Exit/exists", "function not found"))
		return
	}
	res.Functions = append(res.Functions, "optimizer.inArray.Exit")
	lay := astLayout{w}
	for _, opname := range []string{"in", "not in"} {
		e := NewExec(w)
		e.SafeMode = func(f *ssa.Function) string {
			if f == fn {
				return "nopanic"
			}
			return "panics"
		}
		e.InvokeHook = func(e *Exec, st *State, fr *Frame, cc *ssa.CallCommon, recv *Value, args []*Value, k func(*State, []*Value)) bool {
			if cc.Method.Name() == "Type" && ctorOf(recv.One()) == "" {
				k(st, []*Value{{T: cc.Signature().Results().At(0).Type(), L: []*Term{UF("node_type", SInt, recv.One())}}})
				return true
			}
			return false
		}
		st := NewState()
		e.paramMode = true
		rv := e.havocValue(st, fn.Params[0].Type(), "r")
		slot := e.havocValue(st, fn.Params[1].Type(), "node")
		e.paramMode = false
		st.Assume(Not(Eq(slot.One(), NilLoc)))
		e.initFacts(st, fn, e.entryEnv(st, fn, []*Value{rv, slot}, nil))
		bn, an, els := FreshPre(st, "bin"), FreshPre(st, "array"), FreshPre(st, "elems")
		objs := []*Term{bn, an, els, slot.One()}
		for i := range objs {
			for j := i + 1; j < len(objs); j++ {
				AssumeDistinctObjs(st, objs[i], objs[j])
			}
		}
		L := Fresh("left", SVal)
		st.Assume(Not(Eq(L, VNil)))
		n := Fresh("nelems", SBV(64))
		st.Assume(BVCmp("bvsgt", n, BV64(0)))
		st.Assume(BVCmp("bvslt", n, BV64(1<<30)))
		old := lay.ptrVal("BinaryNode", bn)
		st.Store(slot.One(), old)
		st.Store(LocField(bn, lay.off("BinaryNode", "Operator")), StrLit(opname))
		st.Store(LocField(bn, lay.off("BinaryNode", "Left")), L)
		st.Store(LocField(bn, lay.off("BinaryNode", "Right")), lay.ptrVal("ArrayNode", an))
		no := lay.off("ArrayNode", "Nodes")
		st.Store(LocField(an, no), els)
		st.Store(LocField(an, no+1), n)
		st.Store(LocField(an, no+2), n)
		name := "optimizer.inArray[" + strings.ReplaceAll(opname, " ", "-") + "]"
		binT := types.NewPointer(w.namedType("ast", "BinaryNode"))
		constT := types.NewPointer(w.namedType("ast", "ConstantNode"))
		empty := types.NewStruct(nil, nil)
		mapInt := types.NewMap(types.Typ[types.Int], empty)
		mapStr := types.NewMap(types.Typ[types.String], empty)
		lt := UF("node_type", SInt, L)
		rewrites := 0
		for _, o := range e.Run(fn, []*Value{rv, slot}, st, nil) {
			if o.Panic != nil {
				continue // panics inside callees (ast.Patch) are theirs; the function's own sites are safe: obligations
			}
			s := o.St
			cur := s.Load(slot.One(), SVal)
			if s.Simp(Eq(cur, old)) == True {
				continue
			}
			rewrites++
			tp := VSel("ptr_of", cur)
			r1 := s.Load(LocField(tp, lay.off("BinaryNode", "Right")), SVal)
			cv := s.Load(LocField(VSel("ptr_of", r1), lay.off("ConstantNode", "Value")), SVal)
			shape := And(dynTypeTest(cur, binT), Eq(s.Load(LocField(tp, lay.off("BinaryNode", "Operator")), SStr), StrLit(opname)),
				Eq(s.Load(LocField(tp, lay.off("BinaryNode", "Left")), SVal), L), dynTypeTest(r1, constT),
				Or(dynTypeTest(cv, mapInt), dynTypeTest(cv, mapStr)))
			e.AddVC(name+"/post:shape", "post", fn.String(), s, Not(shape), "L in [...] keeps its operator and left operand; the array becomes a constant map[int]struct{} or map[string]struct{}")
			e.AddVC(name+"/post:int-guard", "post", fn.String(), s, And(dynTypeTest(cv, mapInt), Not(Eq(lt, typeCodeTerm(types.Typ[types.Int])))),
				"the array becomes a map[int]struct{} only when the left operand is statically exactly int (the lookup fails for every other key type)")
			e.AddVC(name+"/post:string-guard", "post", fn.String(), s, And(dynTypeTest(cv, mapStr), Not(Eq(lt, typeCodeTerm(types.Typ[types.String])))),
				"the array becomes a map[string]struct{} only when the left operand is statically exactly string")
		}
		if rewrites == 0 {
			res.Obls = append(res.Obls, missingObl(name+"/cover:rewrites", "no path of inArray.Exit rewrites the node: the cells are vacuous"))
		}
		for _, o := range e.obls {
			if strings.Contains(o.Name, "/safe:") && !strings.Contains(o.Name, "/safe:nil-type-call") {
				continue // sites inside the element loops (index, type assertion, element dereference) rely on loop invariants: the loops are cut, not decided
			}
			if strings.Contains(o.Name, "/safe:") {
				o.Name = strings.Replace(o.Name, "optimizer.inArray.Exit", name, 1)
			}
			res.Obls = append(res.Obls, o)
		}
		res.Assumptions = append(res.Assumptions, e.Notes()...)
		res.Assumptions = append(res.Assumptions, "inArray: the element loops are cut with invariant true; only the call of Kind() on the left operand's static type is checked for safety; index / type-assertion / dereference sites inside the loops are not decided")
	}
}

// genPipelineOrder: expr.Compile runs its passes in the order the properties
// rely on — types first, then operator overloads, then user visitors, then the
// optimizer, then code generation (syntactic, over the SSA control-flow graph:
// dominance and reachability of the call sites).
func genPipelineOrder(w *World, res *CheckResult) {
	fn := w.Func("expr.Compile")
	o := &Obligation{Name: "expr.Compile/pipeline:order", Kind: "post", Expect: "unsat", Backend: "syntactic", Func: "expr.Compile", Meta: map[string]string{}, Status: "undecided"}
	res.Obls = append(res.Obls, o)
	if fn == nil {
		o.Status, o.Output = "missing", "expr.Compile not found"
		return
	}
	sites := map[string][]*ssa.BasicBlock{}
	pos := map[string][]int{}
	for _, b := range fn.Blocks {
		for i, in := range b.Instrs {
			if c, ok := in.(ssa.CallInstruction); ok {
				if f, ok := c.Common().Value.(*ssa.Function); ok {
					n := shortName(f)
					sites[n] = append(sites[n], b)
					pos[n] = append(pos[n], i)
				}
			}
		}
	}
	reach := func(from, to *ssa.BasicBlock) bool {
		seen := map[*ssa.BasicBlock]bool{}
		var dfs func(b *ssa.BasicBlock) bool
		dfs = func(b *ssa.BasicBlock) bool {
			if seen[b] {
				return false
			}
			seen[b] = true
			for _, s := range b.Succs {
				if s == to || dfs(s) {
					return true
				}
			}
			return false
		}
		return dfs(from)
	}
	// before(a, b): every call of b is dominated by some call of a, and no call of a is reachable from a call of b
	before := func(a, b string) string {
		if len(sites[a]) == 0 || len(sites[b]) == 0 {
			return a + " or " + b + " is not called by expr.Compile"
		}
		for bi, bb := range sites[b] {
			dom := false
			for ai, ab := range sites[a] {
				if ab == bb && pos[a][ai] < pos[b][bi] || ab != bb && ab.Dominates(bb) {
					dom = true
				}
			}
			if !dom {
				return "a call of " + b + " is not preceded by " + a + " on every path"
			}
			for ai, ab := range sites[a] {
				if ab == bb && pos[a][ai] > pos[b][bi] || ab != bb && reach(bb, ab) {
					if a == "checker.Check" {
						continue // the tree is re-checked after the visitors ran
					}
					return "a call of " + a + " can follow a call of " + b
				}
			}
		}
		return ""
	}
	var bad []string
	for _, pr := range [][2]string{{"checker.Check", "compiler.PatchOperators"}, {"compiler.PatchOperators", "ast.Walk"}, {"compiler.PatchOperators", "optimizer.Optimize"}, {"ast.Walk", "optimizer.Optimize"}, {"optimizer.Optimize", "compiler.Compile"}, {"compiler.PatchOperators", "compiler.Compile"}} {
		a, b := pr[0], pr[1]
		why := before(a, b)
		if (b == "optimizer.Optimize" && a == "ast.Walk") || (a == "optimizer.Optimize") {
			// optional passes (no visitors / Optimize(false)): only the relative order matters
			why = ""
			for bi, bb := range sites[b] {
				for ai, ab := range sites[a] {
					if ab == bb && pos[a][ai] > pos[b][bi] || ab != bb && reach(bb, ab) {
						why = "a call of " + a + " can follow a call of " + b
					}
				}
			}
			if len(sites[a]) == 0 || len(sites[b]) == 0 {
				why = a + " or " + b + " is not called by expr.Compile"
			}
		}
		if why != "" {
			bad = append(bad, a+" < "+b+": "+why)
		}
	}
	if len(bad) == 0 {
		o.Status = "discharged"
		o.Output = "checker.Check < PatchOperators < user visitors (ast.Walk) < optimizer.Optimize < compiler.Compile on every path"
	} else {
		o.Output = strings.Join(bad, "; ")
	}
}

// genConstRange: (*constRange).Exit on  a..b  with integer literals a, b.
func genConstRange(w *World, res *CheckResult) {
	fn := w.Func("optimizer.constRange.Exit")
	ct := w.Contracts["optimizer.constRange.Exit"]
	if fn == nil || ct == nil {
		res.Obls = append(res.Obls, missingObl("optimizer.constRange.Exit/exists", "function or contract missing"))
		return
	}
	res.Functions = append(res.Functions, "optimizer.constRange.Exit")
	lay := astLayout{w}
	e := NewExec(w)
	e.SafeMode = func(f *ssa.Function) string { return "panics" }
	st := NewState()
	e.paramMode = true
	rv := e.havocValue(st, fn.Params[0].Type(), "r")
	slot := e.havocValue(st, fn.Params[1].Type(), "node")
	e.paramMode = false
	st.Assume(Not(Eq(slot.One(), NilLoc)))
	bn, fa, ta := FreshPre(st, "bin"), FreshPre(st, "from"), FreshPre(st, "to")
	objs := []*Term{bn, fa, ta, slot.One()}
	for i := range objs {
		for j := i + 1; j < len(objs); j++ {
			AssumeDistinctObjs(st, objs[i], objs[j])
		}
	}
	a, b := Fresh("a", SBV(64)), Fresh("b", SBV(64))
	// literals are non-negative in the source; unary minus is folded first, so small negative values occur too
	// every int value: b - a + 1 may wrap (the run-time range computes the same wrapped size)
	old := lay.ptrVal("BinaryNode", bn)
	st.Store(slot.One(), old)
	st.Store(LocField(bn, lay.off("BinaryNode", "Operator")), StrLit(".."))
	st.Store(LocField(bn, lay.off("BinaryNode", "Left")), lay.ptrVal("IntegerNode", fa))
	st.Store(LocField(bn, lay.off("BinaryNode", "Right")), lay.ptrVal("IntegerNode", ta))
	st.Store(LocField(fa, lay.off("IntegerNode", "Value")), a)
	st.Store(LocField(ta, lay.off("IntegerNode", "Value")), b)
	size := BVBin("bvadd", BVBin("bvsub", b, a), BV64(1))
	name := "optimizer.constRange"
	constT := types.NewPointer(w.namedType("ast", "ConstantNode"))
	sliceInt := types.NewSlice(types.Typ[types.Int])
	rewrites := 0
	for _, o := range e.Run(fn, []*Value{rv, slot}, st, ct) {
		if o.Panic != nil {
			e.AddVC(name+"/post:content", "post", fn.String(), o.St, True, "the rewrite must not fail")
			continue
		}
		s := o.St
		cur := s.Load(slot.One(), SVal)
		if s.Simp(Eq(cur, old)) == True {
			// not rewritten: only because the range is too large to precompute
			e.AddVC(name+"/post:skips-only-large", "post", fn.String(), s, BVCmp("bvsle", size, BV64(1000000)), "a constant range is left to the run time only when it has more than 1e6 elements")
			continue
		}
		rewrites++
		cv := s.Load(LocField(VSel("ptr_of", cur), lay.off("ConstantNode", "Value")), SVal)
		ln := VSel("sl_len", cv)
		k := BoundVar(fmt.Sprintf("crk%d", freshSeqNext()), SBV(64))
		want := Ite(BVCmp("bvslt", size, BV64(1)), BV64(0), size)
		content := Forall([]*Term{k}, Implies(And(BVCmp("bvsge", k, BV64(0)), BVCmp("bvslt", k, ln)),
			Eq(Select(s.Mem(SBV(64)), LocIndex(VSel("sl_ptr", cv), k)), BVBin("bvadd", a, k))))
		e.AddVC(name+"/post:content", "post", fn.String(), s, Not(And(dynTypeTest(cur, constT), dynTypeTest(cv, sliceInt), Eq(ln, want), content)),
			"a..b becomes the constant []int{a, a+1, ..., b} (empty when b < a): what makeRange builds at run time")
		// the run-time range is charged to the memory budget; a precomputed one is not
		sq := NewState()
		for _, pc := range s.pc {
			if pc.Op != "forall" && pc.Op != "exists" && !pc.Bound {
				sq.Assume(pc)
			}
		}
		e.AddVC(name+"/post:budget-transparent", "post", fn.String(), sq, Not(BVCmp("bvslt", want, BV64(1000000))),
			"a range is precomputed only if the unoptimized program could build it within the memory budget (size < 1e6 on an otherwise empty budget)")
	}
	if rewrites == 0 {
		res.Obls = append(res.Obls, missingObl(name+"/cover:rewrites", "no path of constRange.Exit rewrites the node"))
	}
	for _, o := range e.obls {
		if strings.HasPrefix(o.Name, name+"/") || strings.Contains(o.Name, "constRange.Exit/loop:") {
			res.Obls = append(res.Obls, o)
		}
	}
	res.Assumptions = append(res.Assumptions, e.Notes()...)
}

// genFoldUnary: fold.Exit on -a / +a with an integer literal a whose static
// type the checker may have retyped (setTypeForIntegers stamps only the
// literal; the UnaryNode keeps the type first computed, arbitrary here).
func genFoldUnary(w *World, res *CheckResult) {
	lay := astLayout{w}
	foldFn := w.Func("optimizer.fold.Exit")
	neg := w.Func("vm.negate")
	if foldFn == nil || neg == nil {
		res.Obls = append(res.Obls, missingObl("optimizer.fold[unary]/exists", "function not found"))
		return
	}
	for _, n := range []string{"toInt", "toInt64", "toFloat64", "negate"} {
		w.forceInline["vm."+n] = true
	}
	iface := types.NewInterfaceType(nil, nil)
	for _, lt := range foldLitTypes(w) {
		for _, op := range []string{"-", "+"} {
			cell := fmt.Sprintf("optimizer.fold[unary%s,%s]", op, lt.name)
			a := Fresh("a", SBV(64))
			pa, ok := pushedInteger(w, a, lt.code)
			if !ok {
				res.Obls = append(res.Obls, missingObl(cell+"/post:transparent", "compiler.IntegerNode did not produce a single push"))
				continue
			}
			e := NewExec(w)
			e.SafeMode = func(f *ssa.Function) string { return "panics" }
			var unopt []Outcome
			if op == "-" {
				unopt = e.Run(neg, []*Value{{T: iface, L: []*Term{pa}}}, NewState(), nil)
			} else {
				unopt = []Outcome{{St: NewState(), Res: []*Value{{T: iface, L: []*Term{pa}}}}}
			}
			st := NewState()
			e.paramMode = true
			fv := e.havocValue(st, foldFn.Params[0].Type(), "fold")
			slot := e.havocValue(st, foldFn.Params[1].Type(), "node")
			e.paramMode = false
			st.Assume(Not(Eq(fv.One(), NilLoc)))
			st.Assume(Not(Eq(slot.One(), NilLoc)))
			un, ln := FreshPre(st, "unary"), FreshPre(st, "operand")
			objs := []*Term{un, ln, slot.One(), fv.One()}
			for i := range objs {
				for j := i + 1; j < len(objs); j++ {
					AssumeDistinctObjs(st, objs[i], objs[j])
				}
			}
			old := lay.ptrVal("UnaryNode", un)
			st.Store(slot.One(), old)
			st.Store(LocField(un, lay.off("UnaryNode", "Operator")), StrLit(op))
			st.Store(LocField(un, lay.off("UnaryNode", "Node")), lay.ptrVal("IntegerNode", ln))
			st.Store(LocField(ln, lay.off("IntegerNode", "Value")), a)
			st.Store(LocField(ln, 2), lt.code)
			st.Store(LocField(un, 2), Fresh("unarytype", SInt))
			fst := foldFn.Params[0].Type().Underlying().(*types.Pointer).Elem().Underlying().(*types.Struct)
			st.Store(LocField(fv.One(), fieldLeafOffset(fst, 1)), NilLoc)
			for _, o := range e.Run(foldFn, []*Value{fv, slot}, st, nil) {
				if o.Panic != nil {
					e.AddVC(cell+"/post:transparent", "post", foldFn.String(), o.St, True, "the rewrite itself must not fail")
					continue
				}
				cur := o.St.Load(slot.One(), SVal)
				if o.St.Simp(Eq(cur, old)) == True {
					continue // not folded: nothing to compare
				}
				isInt := dynTypeTest(cur, types.NewPointer(w.namedType("ast", "IntegerNode")))
				if o.St.Simp(isInt) != True {
					e.AddVC(cell+"/post:transparent", "post", foldFn.String(), o.St, True, "the unary operation on an integer literal is replaced by something other than an integer literal")
					continue
				}
				np := VSel("ptr_of", cur)
				v2 := o.St.Load(LocField(np, lay.off("IntegerNode", "Value")), SBV(64))
				t2 := o.St.Simp(o.St.Load(LocField(np, 2), SInt))
				folded, ok := pushedInteger(w, v2, t2)
				if !ok {
					e.AddVC(cell+"/post:transparent", "post", foldFn.String(), o.St, True, "the folded literal carries a type the compiler cannot push")
					continue
				}
				for _, u := range unopt {
					if u.Panic != nil {
						continue
					}
					s2 := o.St.Clone()
					for _, p := range u.St.pc {
						s2.Assume(p)
					}
					got := e.boxValue(s2, u.Res[0])
					e.AddVC(cell+"/post:transparent", "post", foldFn.String(), s2, Not(Eq(got, folded)), "folded literal == negate(operand) (the operand itself for +): equal in kind and value")
				}
			}
			for _, o := range e.obls {
				if strings.HasPrefix(o.Name, cell+"/") {
					o.Meta = map[string]string{"op": "unary" + op, "type": lt.name}
					res.Obls = append(res.Obls, o)
				}
			}
		}
	}
	for _, n := range []string{"toInt", "toInt64", "toFloat64", "negate"} {
		delete(w.forceInline, "vm."+n)
	}
}

// genConstExpr: (*constExpr).Exit on  f(lit)  with an integer literal whose
// static type the checker may have set to the parameter's type: the argument
// handed to the function at compile time is the value the compiled program
// would push for that literal (compiler.IntegerNode) — otherwise the call
// fails (or computes something else) only when ConstExpr is configured.
func genConstExpr(w *World, res *CheckResult) {
	fn := w.Func("optimizer.constExpr.Exit")
	if fn == nil {
		res.Obls = append(res.Obls, missingObl("optimizer.constExpr.Exit/exists", "function not found"))
		return
	}
	res.Functions = append(res.Functions, "optimizer.constExpr.Exit")
	lay := astLayout{w}
	for _, lt := range foldLitTypes(w) {
		cell := fmt.Sprintf("optimizer.constExpr[int-arg,%s]", lt.name)
		a := Fresh("a", SBV(64))
		want, ok := pushedInteger(w, a, lt.code)
		if !ok {
			res.Obls = append(res.Obls, missingObl(cell+"/post:arg-as-compiled", "compiler.IntegerNode did not produce a single push"))
			continue
		}
		e := NewExec(w)
		e.SafeMode = func(f *ssa.Function) string { return "panics" }
		st := NewState()
		e.paramMode = true
		cv := e.havocValue(st, fn.Params[0].Type(), "c")
		slot := e.havocValue(st, fn.Params[1].Type(), "node")
		e.paramMode = false
		st.Assume(Not(Eq(cv.One(), NilLoc)))
		st.Assume(Not(Eq(slot.One(), NilLoc)))
		fnode, args, lit := FreshPre(st, "call"), FreshPre(st, "args"), FreshPre(st, "lit")
		objs := []*Term{fnode, args, lit, slot.One(), cv.One()}
		for i := range objs {
			for j := i + 1; j < len(objs); j++ {
				AssumeDistinctObjs(st, objs[i], objs[j])
			}
		}
		st.Store(slot.One(), lay.ptrVal("FunctionNode", fnode))
		ao := lay.off("FunctionNode", "Arguments")
		st.Store(LocField(fnode, ao), args)
		st.Store(LocField(fnode, ao+1), BV64(1))
		st.Store(LocField(fnode, ao+2), BV64(1))
		st.Store(args, lay.ptrVal("IntegerNode", lit))
		st.Store(LocField(lit, lay.off("IntegerNode", "Value")), a)
		st.Store(LocField(lit, 2), lt.code)
		calls := 0
		e.CallHook = func(e *Exec, st *State, fr *Frame, cc *ssa.CallCommon, callee *ssa.Function, cargs []*Value, k func(*State, []*Value)) bool {
			// the argument vector is filled in a loop (cut): the obligation is placed where an element is made
			if callee.String() == "reflect.ValueOf" && len(cargs) == 1 && shortName(fr.fn) == "optimizer.constExpr.Exit" {
				calls++
				e.AddVC(cell+"/post:arg-as-compiled", "post", fn.String(), st, Not(Eq(cargs[0].One(), want)),
					"the literal is handed to the function as the value the compiled program would push for it (its static numeric kind)")
			}
			return false
		}
		constT := types.NewPointer(w.namedType("ast", "ConstantNode"))
		for _, o := range e.Run(fn, []*Value{cv, slot}, st, w.Contracts["optimizer.constExpr.Exit"]) {
			if o.Panic != nil || lt.name != "int" {
				continue
			}
			cur := o.St.Load(slot.One(), SVal)
			if o.St.Simp(Eq(cur, lay.ptrVal("FunctionNode", fnode))) == True {
				continue
			}
			// a constant node never holds nil (the compiler's constant pool cannot take it: makeConstant requires i != nil)
			val := o.St.Load(LocField(VSel("ptr_of", cur), lay.off("ConstantNode", "Value")), SVal)
			e.AddVC("optimizer.constExpr/post:nil-result", "post", fn.String(), o.St, And(dynTypeTest(cur, constT), Eq(val, VNil)),
				"a call that returns nil is not replaced by a ConstantNode holding nil")
		}
		if calls == 0 {
			res.Obls = append(res.Obls, missingObl(cell+"/post:arg-as-compiled", "no path of constExpr.Exit calls the function"))
		}
		for _, o := range e.obls {
			if strings.HasPrefix(o.Name, cell+"/") || (lt.name == "int" && strings.HasPrefix(o.Name, "optimizer.constExpr/")) {
				o.Meta = map[string]string{"type": lt.name}
				res.Obls = append(res.Obls, o)
			}
		}
	}
}

// genFoldArray: fold.Exit on an array literal. The constant that replaces it
// must have the dynamic type the unoptimized program builds with OpArray,
// []interface{} (a []int or []string constant compares unequal to the same
// elements held in a []interface{}, and equal to a []int the literal is not).
func genFoldArray(w *World, res *CheckResult) {
	lay := astLayout{w}
	fn := w.Func("optimizer.fold.Exit")
	if fn == nil {
		return
	}
	cell := "optimizer.fold[array]"
	e := NewExec(w)
	e.SafeMode = func(f *ssa.Function) string { return "panics" }
	st := NewState()
	e.paramMode = true
	fv := e.havocValue(st, fn.Params[0].Type(), "fold")
	slot := e.havocValue(st, fn.Params[1].Type(), "node")
	e.paramMode = false
	st.Assume(Not(Eq(fv.One(), NilLoc)))
	st.Assume(Not(Eq(slot.One(), NilLoc)))
	an, els := FreshPre(st, "array"), FreshPre(st, "elems")
	objs := []*Term{an, els, slot.One(), fv.One()}
	for i := range objs {
		for j := i + 1; j < len(objs); j++ {
			AssumeDistinctObjs(st, objs[i], objs[j])
		}
	}
	n := Fresh("nelems", SBV(64))
	st.Assume(BVCmp("bvsgt", n, BV64(0)))
	st.Assume(BVCmp("bvslt", n, BV64(1<<30)))
	old := lay.ptrVal("ArrayNode", an)
	st.Store(slot.One(), old)
	no := lay.off("ArrayNode", "Nodes")
	st.Store(LocField(an, no), els)
	st.Store(LocField(an, no+1), n)
	st.Store(LocField(an, no+2), n)
	constT := types.NewPointer(w.namedType("ast", "ConstantNode"))
	want := types.NewSlice(types.NewInterfaceType(nil, nil))
	rewrites := 0
	for _, o := range e.Run(fn, []*Value{fv, slot}, st, nil) {
		if o.Panic != nil {
			continue // type assertions inside the cut element loops: not decided
		}
		cur := o.St.Load(slot.One(), SVal)
		if o.St.Simp(Eq(cur, old)) == True {
			continue
		}
		rewrites++
		cv := o.St.Load(LocField(VSel("ptr_of", cur), lay.off("ConstantNode", "Value")), SVal)
		e.AddVC(cell+"/post:array-type", "post", fn.String(), o.St, Not(And(dynTypeTest(cur, constT), dynTypeTest(cv, want))),
			"a folded array literal is a constant of the type OpArray builds at run time: []interface{}")
	}
	if rewrites == 0 {
		res.Obls = append(res.Obls, missingObl(cell+"/post:array-type", "no path of fold.Exit folds an array literal"))
	}
	for _, o := range e.obls {
		if strings.HasPrefix(o.Name, cell+"/") {
			res.Obls = append(res.Obls, o)
		}
	}
}

// genFoldNonConstant: fold.Exit rewrites an arithmetic operation only when both operands are literals. A cell per
// operator and side: one operand is an identifier of arbitrary static type, the other an integer literal of
// arbitrary value and type; the real fold.Exit must leave the slot and fold.err as they were. (An "identity"
// rewrite such as x * 1 -> x drops the promotion of x to the common kind of the two operands.)
func genFoldNonConstant(w *World, res *CheckResult) {
	lay := astLayout{w}
	foldFn := w.Func("optimizer.fold.Exit")
	if foldFn == nil {
		res.Obls = append(res.Obls, missingObl("optimizer.fold[non-constant]/exists", "function not found"))
		return
	}
	fst := foldFn.Params[0].Type().Underlying().(*types.Pointer).Elem().Underlying().(*types.Struct)
	errOff := fieldLeafOffset(fst, 1)
	for _, op := range []string{"+", "-", "*", "/", "%", "**"} {
		for _, side := range []string{"left", "right"} {
			cell := fmt.Sprintf("optimizer.fold[%s,non-constant-%s]", op, side)
			e := NewExec(w)
			e.SafeMode = func(f *ssa.Function) string { return "panics" }
			st := NewState()
			e.paramMode = true
			fv := e.havocValue(st, foldFn.Params[0].Type(), "fold")
			slot := e.havocValue(st, foldFn.Params[1].Type(), "node")
			e.paramMode = false
			st.Assume(Not(Eq(fv.One(), NilLoc)))
			st.Assume(Not(Eq(slot.One(), NilLoc)))
			bn, idn, lit := FreshPre(st, "bin"), FreshPre(st, "ident"), FreshPre(st, "lit")
			objs := []*Term{bn, idn, lit, slot.One(), fv.One()}
			for i := range objs {
				for j := i + 1; j < len(objs); j++ {
					AssumeDistinctObjs(st, objs[i], objs[j])
				}
			}
			old := lay.ptrVal("BinaryNode", bn)
			st.Store(slot.One(), old)
			st.Store(LocField(bn, lay.off("BinaryNode", "Operator")), StrLit(op))
			idv, litv := lay.ptrVal("IdentifierNode", idn), lay.ptrVal("IntegerNode", lit)
			if side == "left" {
				st.Store(LocField(bn, lay.off("BinaryNode", "Left")), idv)
				st.Store(LocField(bn, lay.off("BinaryNode", "Right")), litv)
			} else {
				st.Store(LocField(bn, lay.off("BinaryNode", "Left")), litv)
				st.Store(LocField(bn, lay.off("BinaryNode", "Right")), idv)
			}
			st.Store(LocField(lit, lay.off("IntegerNode", "Value")), Fresh("b", SBV(64)))
			st.Store(LocField(lit, 2), Fresh("littype", SInt))
			st.Store(LocField(idn, 2), Fresh("identtype", SInt))
			st.Store(LocField(bn, 2), Fresh("bintype", SInt))
			st.Store(LocField(fv.One(), errOff), NilLoc)
			n := 0
			for _, o := range e.Run(foldFn, []*Value{fv, slot}, st, nil) {
				n++
				if o.Panic != nil {
					e.AddVC(cell+"/post:unchanged", "post", foldFn.String(), o.St, True, "fold.Exit must not fail on an operation with a non-constant operand")
					continue
				}
				cur := o.St.Load(slot.One(), SVal)
				errSet := Not(Eq(o.St.Load(LocField(fv.One(), errOff), SLoc), NilLoc))
				e.AddVC(cell+"/post:unchanged", "post", foldFn.String(), o.St, Or(Not(Eq(cur, old)), errSet), "an operation with a non-constant operand is neither rewritten nor rejected by the folder")
			}
			if n == 0 {
				res.Obls = append(res.Obls, missingObl(cell+"/post:unchanged", "no path of fold.Exit explored"))
			}
			res.Obls = append(res.Obls, e.obls...)
			res.Assumptions = append(res.Assumptions, e.Notes()...)
		}
	}
}
