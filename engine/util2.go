package main

import (
	"math/big"
	"sort"
	"strconv"
	"strings"
)

type bigInt = big.Int

var bigZero = big.NewInt(0)

type stringsBuilder = strings.Builder

func stringsHasPrefix(s, p string) bool { return strings.HasPrefix(s, p) }
func sortStrings(x []string)            { sort.Strings(x) }
func sortTermsByID(ls []*Term)          { sort.Slice(ls, func(i, j int) bool { return ls[i].id < ls[j].id }) }
func itoa(i int) string                 { return strconv.Itoa(i) }
