package main

import (
	"bytes"
	"context"
	"encoding/json"
	"fmt"
	"math"
	"math/big"
	"os"
	"os/exec"
	"path/filepath"
	"strings"
	"time"
)

func mathFloat32bits(f float32) uint32 { return math.Float32bits(f) }
func mathFloat64bits(f float64) uint64 { return math.Float64bits(f) }

type modelVal struct {
	bits  *big.Int
	width int
	fp    bool
	isBool, b bool
}

// modelValue extracts the value of constant name from a get-model answer.
func modelValue(model, name string) (modelVal, bool) {
	for _, key := range []string{"(define-fun |" + name + "| ()", "(define-fun " + name + " ()"} {
		i := strings.Index(model, key)
		if i < 0 {
			continue
		}
		// find the end of this define-fun
		depth := 0
		j := i
		for ; j < len(model); j++ {
			if model[j] == '(' {
				depth++
			} else if model[j] == ')' {
				depth--
				if depth == 0 {
					break
				}
			}
		}
		body := strings.TrimSpace(model[i+len(key) : j])
		// body = <sort> <value>
		var sortEnd int
		if strings.HasPrefix(body, "(") {
			d := 0
			for k := 0; k < len(body); k++ {
				if body[k] == '(' {
					d++
				} else if body[k] == ')' {
					d--
					if d == 0 {
						sortEnd = k + 1
						break
					}
				}
			}
		} else {
			sortEnd = strings.IndexAny(body, " \n\t")
		}
		srt := strings.TrimSpace(body[:sortEnd])
		val := strings.TrimSpace(body[sortEnd:])
		return parseModelValue(srt, val)
	}
	return modelVal{bits: big.NewInt(0), width: 64}, true // don't-care in the model: any value works, take 0
}

func parseBits(tok string) (*big.Int, int, bool) {
	switch {
	case strings.HasPrefix(tok, "#x"):
		v, ok := new(big.Int).SetString(tok[2:], 16)
		return v, 4 * (len(tok) - 2), ok
	case strings.HasPrefix(tok, "#b"):
		v, ok := new(big.Int).SetString(tok[2:], 2)
		return v, len(tok) - 2, ok
	}
	return nil, 0, false
}

func parseModelValue(srt, val string) (modelVal, bool) {
	val = strings.Join(strings.Fields(val), " ")
	if val == "true" || val == "false" {
		return modelVal{isBool: true, b: val == "true"}, true
	}
	if v, w, ok := parseBits(val); ok {
		return modelVal{bits: v, width: w}, true
	}
	if strings.HasPrefix(val, "(_ bv") {
		var n string
		var w int
		fmt.Sscanf(strings.ReplaceAll(val[5:], ")", ""), "%s %d", &n, &w)
		v, ok := new(big.Int).SetString(n, 10)
		return modelVal{bits: v, width: w}, ok
	}
	if strings.HasPrefix(val, "(fp ") {
		parts := strings.Fields(strings.TrimSuffix(val[4:], ")"))
		if len(parts) != 3 {
			return modelVal{}, false
		}
		s, sw, ok1 := parseBits(parts[0])
		e, ew, ok2 := parseBits(parts[1])
		m, mw, ok3 := parseBits(parts[2])
		if !ok1 || !ok2 || !ok3 {
			return modelVal{}, false
		}
		v := new(big.Int).Lsh(s, uint(ew+mw))
		v.Or(v, new(big.Int).Lsh(e, uint(mw)))
		v.Or(v, m)
		return modelVal{bits: v, width: sw + ew + mw, fp: true}, true
	}
	if strings.HasPrefix(val, "(_ ") {
		// (_ +zero 11 53) (_ -zero ..) (_ +oo ..) (_ -oo ..) (_ NaN ..)
		var kind string
		var eb, sb int
		fmt.Sscanf(strings.TrimSuffix(val[3:], ")"), "%s %d %d", &kind, &eb, &sb)
		w := eb + sb
		var v *big.Int
		expAll := new(big.Int).Lsh(mask(eb), uint(sb-1))
		sign := new(big.Int).Lsh(big.NewInt(1), uint(w-1))
		switch kind {
		case "+zero":
			v = big.NewInt(0)
		case "-zero":
			v = sign
		case "+oo":
			v = expAll
		case "-oo":
			v = new(big.Int).Or(sign, expAll)
		case "NaN":
			v = new(big.Int).Or(expAll, big.NewInt(1))
		default:
			return modelVal{}, false
		}
		return modelVal{bits: v, width: w, fp: true}, true
	}
	return modelVal{}, false
}

// goLit renders a model value as a Go expression of numeric kind k.
func goLit(kind string, v modelVal) string {
	switch kind {
	case "float64":
		return fmt.Sprintf("math.Float64frombits(0x%x)", v.bits)
	case "float32":
		return fmt.Sprintf("math.Float32frombits(0x%x)", v.bits)
	case "bool":
		return fmt.Sprint(v.b)
	}
	if strings.HasPrefix(kind, "int") {
		return fmt.Sprintf("%s(%s)", kind, signed(v.bits, v.width).String())
	}
	return fmt.Sprintf("%s(%s)", kind, v.bits.String())
}

// runReplay injects src as an in-package test of pkg (relative to the repo)
// through -overlay, runs it against the real code and records the outcome.
// It returns the replay file path and whether the violation was reproduced.
func runReplay(o *Obligation, dir, pkg, src string) (string, bool) {
	repo := repoRoot
	tmp, err := os.MkdirTemp("", "verif-replay-")
	if err != nil {
		return "", false
	}
	defer os.RemoveAll(tmp)
	testFile := filepath.Join(tmp, "zz_verif_replay_test.go")
	os.WriteFile(testFile, []byte(src), 0o644)
	ov := map[string]map[string]string{"Replace": {filepath.Join(repo, pkg, "zz_verif_replay_test.go"): testFile}}
	ovb, _ := json.Marshal(ov)
	ovFile := filepath.Join(tmp, "ov.json")
	os.WriteFile(ovFile, ovb, 0o644)
	ctx, cancel := context.WithTimeout(context.Background(), 120*time.Second)
	defer cancel()
	cmd := exec.CommandContext(ctx, "go", "test", "-mod=mod", "-overlay", ovFile, "-vet=off", "-count=1", "-timeout", "60s", "-run", "^TestVerifReplay$", "-v", "./"+pkg)
	cmd.Dir = repo
	cmd.Env = append(os.Environ(), "GOFLAGS=-mod=mod", "GOPROXY=off", "GOSUMDB=off", "GOTOOLCHAIN=local")
	var out bytes.Buffer
	cmd.Stdout = &out
	cmd.Stderr = &out
	cmd.Run()
	output := out.String()
	// a replay that runs into go test's 60 s timeout is the real code not terminating on the replayed input
	real := strings.Contains(output, "VIOLATED:") || strings.Contains(output, "panic: test timed out")
	base := filepath.Join(dir, sanitize(o.Name))
	os.WriteFile(base+".go.txt", []byte(src), 0o644)
	m := map[string]interface{}{
		"property": "", "obligation": o.Name, "kind": o.Kind, "function": o.Func, "status": o.Status,
		"solver": o.Solver, "model": truncate(o.Model, 20000), "replay_test": base + ".go.txt",
		"replay_package": pkg, "replay_output": truncate(output, 20000), "replayed_on_real_code": real, "meta": o.Meta,
	}
	b, _ := json.MarshalIndent(m, "", " ")
	os.WriteFile(base+".json", b, 0o644)
	o.Output = o.Output + "\n--- replay output ---\n" + output
	return base + ".json", real
}

var repoRoot = "/repo"
