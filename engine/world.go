package main

import (
	"bufio"
	"fmt"
	"go/token"
	"go/types"
	"os"
	"path/filepath"
	"sort"
	"strings"

	"golang.org/x/tools/go/packages"
	"golang.org/x/tools/go/ssa"
	"golang.org/x/tools/go/ssa/ssautil"
)

const modPath = "github.com/antonmedv/expr"

type World struct {
	Repo        string
	Fset        *token.FileSet
	Pkgs        []*packages.Package
	Prog        *ssa.Program
	SSAPkgs     map[string]*ssa.Package // by short path ("vm", "parser/lexer", "" for root)
	Funcs       map[string]*ssa.Function
	Contracts   map[string]*Contract
	forceInline map[string]bool
	trusted     map[string]bool
	LoadSeconds float64
	ContractSrc map[string]string // file -> content hash-ish
}

type Clause struct {
	Label string
	Expr  string
}

type LoopSpec struct {
	Invariants []Clause
	Decreases  string
	Modifies   []string
	EntryAsserts []Clause // asserted at loop entry only (not invariant)
	LabelBy    string     // expression whose literal value names the path
	PanicSummary bool     // explore the recover handler once from the generalised mid-loop state
	BodyEnsures []Clause  // asserted at the end of every completed iteration (facts about the element just processed)
}

type Contract struct {
	Func     string
	File     string
	Results  []string
	Requires []Clause
	Ensures  []Clause
	Loops    map[string]*LoopSpec // keyed by loop ordinal ("0") or by the enclosing loop's path label ("OpArray")
	Mode     string
	Inline   bool
	Trusted  bool
	Assigns  []string
	Schemas  [][]string
	Lets     []Clause // let name := expr (evaluated at entry)
	Cases    map[string][]Clause
	Props    []string
	Pure     bool
	MayPanic bool
	Defs     []MacroDef
	NoEscape bool // a panic may be raised and recovered inside, but must not escape
	PanicsOnlyIf []Clause
}

func LoadWorld(repo string) (*World, error) {
	w := &World{Repo: repo, SSAPkgs: map[string]*ssa.Package{}, Funcs: map[string]*ssa.Function{}, Contracts: map[string]*Contract{},
		forceInline: map[string]bool{}, trusted: map[string]bool{}, ContractSrc: map[string]string{}}
	cfg := &packages.Config{Mode: packages.LoadAllSyntax, Dir: repo, BuildFlags: []string{"-tags=verif"},
		Env: append(os.Environ(), "GOFLAGS=-mod=mod", "GOPROXY=off", "GOSUMDB=off", "GOTOOLCHAIN=local")}
	pkgs, err := packages.Load(cfg, "./...")
	if err != nil {
		return nil, err
	}
	var errs []string
	for _, p := range pkgs {
		if !strings.HasPrefix(p.PkgPath, modPath) {
			continue
		}
		for _, e := range p.Errors {
			errs = append(errs, e.Error())
		}
	}
	if len(errs) > 0 {
		return nil, fmt.Errorf("package errors: %s", strings.Join(errs, "; "))
	}
	w.Pkgs = pkgs
	prog, spkgs := ssautil.AllPackages(pkgs, ssa.InstantiateGenerics|ssa.GlobalDebug)
	prog.Build()
	w.Prog = prog
	w.Fset = prog.Fset
	for i, sp := range spkgs {
		if sp == nil {
			continue
		}
		pp := pkgs[i].PkgPath
		if !strings.HasPrefix(pp, modPath) {
			continue
		}
		short := strings.TrimPrefix(strings.TrimPrefix(pp, modPath), "/")
		w.SSAPkgs[short] = sp
	}
	for fn := range ssautil.AllFunctions(prog) {
		if fn.Package() == nil && fn.Parent() == nil {
			continue
		}
		if !w.inMod(fn) {
			continue
		}
		if fn.Synthetic != "" && !strings.Contains(fn.Name(), "$") {
			continue
		}
		w.Funcs[shortName(fn)] = fn
	}
	if err := w.loadContracts(); err != nil {
		return nil, err
	}
	return w, nil
}

func (w *World) inMod(fn *ssa.Function) bool {
	for f := fn; f != nil; f = f.Parent() {
		if p := f.Package(); p != nil {
			return strings.HasPrefix(p.Pkg.Path(), modPath)
		}
	}
	return false
}

func (w *World) Func(name string) *ssa.Function { return w.Funcs[name] }

func (w *World) FuncNames() []string {
	var out []string
	for n := range w.Funcs {
		out = append(out, n)
	}
	sort.Strings(out)
	return out
}

// loadContracts reads every contracts_verif.go under the repo. The files are
// comment-only (//go:build verif + package clause), so they are parsed as text.
func (w *World) loadContracts() error {
	var files []string
	filepath.Walk(w.Repo, func(p string, info os.FileInfo, err error) error {
		if err == nil && !info.IsDir() && info.Name() == "contracts_verif.go" {
			files = append(files, p)
		}
		return nil
	})
	sort.Strings(files)
	for _, f := range files {
		if err := w.parseContractFile(f); err != nil {
			return err
		}
	}
	return nil
}

func (w *World) parseContractFile(path string) error {
	fh, err := os.Open(path)
	if err != nil {
		return err
	}
	defer fh.Close()
	sc := bufio.NewScanner(fh)
	sc.Buffer(make([]byte, 1<<20), 1<<20)
	var cur *Contract
	ln := 0
	sawTag := false
	for sc.Scan() {
		ln++
		line := strings.TrimSpace(sc.Text())
		if strings.HasPrefix(line, "//go:build") {
			if strings.Contains(line, "verif") {
				sawTag = true
			}
			continue
		}
		if !strings.HasPrefix(line, "//@") {
			if line != "" && !strings.HasPrefix(line, "//") && !strings.HasPrefix(line, "package ") {
				return fmt.Errorf("%s:%d: contract files must contain only comments and a package clause", path, ln)
			}
			continue
		}
		body := strings.TrimSpace(line[3:])
		if body == "" {
			continue
		}
		// strip trailing comment
		if i := strings.Index(body, " // "); i >= 0 {
			body = strings.TrimSpace(body[:i])
		}
		fields := strings.Fields(body)
		switch fields[0] {
		case "func":
			if len(fields) < 2 {
				return fmt.Errorf("%s:%d: func needs a name", path, ln)
			}
			cur = &Contract{Func: fields[1], File: path, Loops: map[string]*LoopSpec{}, Cases: map[string][]Clause{}}
			if len(fields) > 2 && fields[2] == "returns" {
				cur.Results = fields[3:]
			}
			if _, dup := w.Contracts[cur.Func]; dup {
				return fmt.Errorf("%s:%d: duplicate contract for %s", path, ln, cur.Func)
			}
			w.Contracts[cur.Func] = cur
		default:
			if cur == nil {
				return fmt.Errorf("%s:%d: clause before any func", path, ln)
			}
			rest := strings.TrimSpace(body[len(fields[0]):])
			label := ""
			kw := fields[0]
			if i := strings.Index(kw, "["); i >= 0 && strings.HasSuffix(kw, "]") {
				label = kw[i+1 : len(kw)-1]
				kw = kw[:i]
			}
			switch kw {
			case "requires":
				if label == "" {
					label = fmt.Sprintf("r%d", len(cur.Requires))
				}
				cur.Requires = append(cur.Requires, Clause{label, rest})
			case "ensures":
				if label == "" {
					label = fmt.Sprintf("e%d", len(cur.Ensures))
				}
				cur.Ensures = append(cur.Ensures, Clause{label, rest})
			case "let":
				i := strings.Index(rest, ":=")
				if i < 0 {
					return fmt.Errorf("%s:%d: let needs :=", path, ln)
				}
				cur.Lets = append(cur.Lets, Clause{strings.TrimSpace(rest[:i]), strings.TrimSpace(rest[i+2:])})
			case "loop":
				var n string
				var what string
				if _, err := fmt.Sscanf(rest, "%s %s", &n, &what); err != nil {
					return fmt.Errorf("%s:%d: loop <n> invariant|decreases|modifies ...", path, ln)
				}
				ls := cur.Loops[n]
				if ls == nil {
					ls = &LoopSpec{}
					cur.Loops[n] = ls
				}
				i := strings.Index(rest, what)
				ex := strings.TrimSpace(rest[i+len(what):])
				switch {
				case strings.HasPrefix(what, "invariant"):
					lb := fmt.Sprintf("i%d", len(ls.Invariants))
					if j := strings.Index(what, "["); j >= 0 {
						lb = what[j+1 : len(what)-1]
					}
					ls.Invariants = append(ls.Invariants, Clause{lb, ex})
				case what == "decreases":
					ls.Decreases = ex
				case what == "modifies":
					ls.Modifies = append(ls.Modifies, strings.Fields(ex)...)
				case strings.HasPrefix(what, "entry-assert"):
					lb := fmt.Sprintf("a%d", len(ls.EntryAsserts))
					if j := strings.Index(what, "["); j >= 0 {
						lb = what[j+1 : len(what)-1]
					}
					ls.EntryAsserts = append(ls.EntryAsserts, Clause{lb, ex})
				case strings.HasPrefix(what, "body-ensures"):
					lb := fmt.Sprintf("b%d", len(ls.BodyEnsures))
					if j := strings.Index(what, "["); j >= 0 {
						lb = what[j+1 : len(what)-1]
					}
					ls.BodyEnsures = append(ls.BodyEnsures, Clause{lb, ex})
				case what == "label-by":
					ls.LabelBy = ex
				case what == "panic-summary":
					ls.PanicSummary = true
				default:
					return fmt.Errorf("%s:%d: unknown loop clause %s", path, ln, what)
				}
			case "mode":
				cur.Mode = rest
			case "define":
				// define name(param) := body
				i := strings.Index(rest, ":=")
				j := strings.Index(rest, "(")
				k := strings.Index(rest, ")")
				if i < 0 || j < 0 || k < j || k > i {
					return fmt.Errorf("%s:%d: define name(param) := body", path, ln)
				}
				cur.Defs = append(cur.Defs, MacroDef{Name: strings.TrimSpace(rest[:j]), Param: strings.TrimSpace(rest[j+1 : k]), Body: strings.TrimSpace(rest[i+2:])})
			case "pure":
				cur.Pure = true
			case "panics-only-if":
				// every path on which the function panics satisfies the condition (over the entry state)
				cur.PanicsOnlyIf = append(cur.PanicsOnlyIf, Clause{label, rest})
			case "panics":
				cur.MayPanic = true
			case "inline":
				cur.Inline = true
			case "trusted":
				cur.Trusted = true
			case "assigns":
				for _, a := range strings.Split(rest, ",") {
					cur.Assigns = append(cur.Assigns, strings.TrimSpace(a))
				}
			case "schema":
				cur.Schemas = append(cur.Schemas, fields[1:])
			case "case":
				// case <Name>: <clause kw> <expr>
				i := strings.Index(rest, ":")
				if i < 0 {
					return fmt.Errorf("%s:%d: case <name>: ...", path, ln)
				}
				nm := strings.TrimSpace(rest[:i])
				cur.Cases[nm] = append(cur.Cases[nm], Clause{label, strings.TrimSpace(rest[i+1:])})
			case "property":
				cur.Props = append(cur.Props, strings.Fields(rest)...)
			default:
				return fmt.Errorf("%s:%d: unknown clause %q", path, ln, fields[0])
			}
		}
	}
	if !sawTag {
		return fmt.Errorf("%s: missing //go:build verif", path)
	}
	return nil
}

// namedType looks up a named type in a package of the module.
func (w *World) namedType(pkgShort, name string) types.Type {
	sp := w.SSAPkgs[pkgShort]
	if sp == nil {
		return nil
	}
	o := sp.Pkg.Scope().Lookup(name)
	if o == nil {
		return nil
	}
	return o.Type()
}
