package main

// Lazily instantiated universal facts about memory arrays.
//
// Havocs (loop heads, calls with frames, allocations) introduce a fresh array
// A together with facts of the form  forall l. body(l)  that mention A[l].
// Asserting them as quantifiers makes every query hard for every solver, so
// they are kept on the side and instantiated exactly at the locations that
// are read (State.Load) or that occur in a goal (AddVC). When an instance's
// guard is syntactically true the load is rewritten instead (the read "sees
// through" the havoc), which keeps path conditions small and quantifier free.

type qfact struct {
	v     *Term // bound variable (sort of the array index)
	guard *Term // may be True
	lhs   *Term // select(A, v) — the constrained cell
	rhs   *Term // its value under the guard
}

func (s *State) AddQFact(arr *Term, f *qfact) {
	if s.qf == nil {
		s.qf = map[*Term][]*qfact{}
	}
	s.qf[arr] = append(append([]*qfact(nil), s.qf[arr]...), f)
}

func baseArray(a *Term) *Term {
	for a.Op == "store" {
		a = a.Args[0]
	}
	return a
}

// Sel reads arr[idx], instantiating the side facts of the base array at idx.
func (s *State) Sel(arr, idx *Term) *Term {
	t := Select(arr, idx)
	if idx.Bound || len(s.qf) == 0 {
		return t
	}
	for depth := 0; depth < 64; depth++ {
		if t.Op != "select" {
			return t
		}
		a, l := t.Args[0], t.Args[1]
		if a.Op == "store" {
			// aliasing with an earlier store is undecided syntactically:
			// instantiate for the base array (the instance mentions base[l])
			s.instantiateAt(baseArray(a), l)
			return t
		}
		facts := s.qf[a]
		if len(facts) == 0 {
			return t
		}
		rewritten := false
		for _, f := range facts {
			g := Subst(f.guard, map[*Term]*Term{f.v: l})
			g = s.Simp(g)
			if g == True {
				t = Subst(f.rhs, map[*Term]*Term{f.v: l})
				rewritten = true
				break
			}
		}
		if !rewritten {
			s.instantiateAt(a, l)
			return t
		}
	}
	return t
}

// instantiateAt adds the instances of a's facts at location l to the path
// condition (once), and recursively those of the arrays they mention.
func (s *State) instantiateAt(a, l *Term) {
	if l.Bound {
		return
	}
	for _, inst := range s.instancesAt(a, l, map[[2]*Term]bool{}) {
		s.Assume(inst)
	}
}

func (s *State) instancesAt(a, l *Term, seen map[[2]*Term]bool) []*Term {
	key := [2]*Term{a, l}
	if seen[key] || l.Bound {
		return nil
	}
	seen[key] = true
	if s.qfDone == nil {
		s.qfDone = map[[2]*Term]bool{}
	}
	var out []*Term
	for _, f := range s.qf[a] {
		m := map[*Term]*Term{f.v: l}
		g := s.Simp(Subst(f.guard, m))
		if g == False {
			continue
		}
		rhs := Subst(f.rhs, m)
		lhs := Subst(f.lhs, m)
		if !s.qfDone[key] {
			out = append(out, Implies(g, Eq(lhs, rhs)))
		}
		// the instance mentions older arrays at l
		out = append(out, s.instancesIn(rhs, seen)...)
	}
	s.qfDone[key] = true
	return out
}

// instancesIn collects instances for every select(A, l) occurring in t.
func (s *State) instancesIn(t *Term, seen map[[2]*Term]bool) []*Term {
	if len(s.qf) == 0 {
		return nil
	}
	var out []*Term
	visited := map[*Term]bool{}
	var walk func(t *Term)
	walk = func(t *Term) {
		if visited[t] || t.Op == "" {
			return
		}
		visited[t] = true
		if t.Op == "select" && !t.Args[1].Bound {
			b := baseArray(t.Args[0])
			if len(s.qf[b]) > 0 {
				out = append(out, s.instancesAt(b, t.Args[1], seen)...)
			}
		}
		for _, a := range t.Args {
			walk(a)
		}
	}
	walk(t)
	return out
}

// skolemInstances instantiates every side fact whose variable has c's sort at c.
func (s *State) skolemInstances(c *Term) []*Term {
	var out []*Term
	seen := map[[2]*Term]bool{}
	for a, fs := range s.qf {
		if len(fs) > 0 && fs[0].v.Sort == c.Sort {
			save := s.qfDone
			s.qfDone = map[[2]*Term]bool{}
			out = append(out, s.instancesAt(a, c, seen)...)
			s.qfDone = save
		}
	}
	return out
}

// frameFact: outside the frame (objects objs, exact locations flocs, objects
// allocated after water) the new array agrees with the old one.
func frameFact(old, nw *Term, objs, flocs []*Term, water *Term) *qfact {
	ks, _ := arrSorts(old.Sort)
	l := BoundVar("fl"+itoa(freshSeqNext()), ks)
	var same []*Term
	for _, o := range objs {
		same = append(same, Not(Eq(LObj(l), o)))
	}
	for _, f := range flocs {
		same = append(same, Not(Eq(l, f)))
	}
	same = append(same, IntCmp("<=", LObj(l), water))
	return &qfact{v: l, guard: And(same...), lhs: Select(nw, l), rhs: Select(old, l)}
}
