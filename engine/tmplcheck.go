package main

// Layer B, part 2: the bytecode logic. Each emission trace is executed on an
// abstract VM (symbolic stack height, symbolic values of loop variables,
// static scope depth) whose per-opcode effects are the `stack`, `scopes` and
// `operand` clauses of VM.Run's contract — the clauses Layer G proves against
// the real case bodies. Child segments contribute by the contract of compile
// (the induction hypothesis): exactly one value pushed (two for a PairNode),
// scopes untouched, nothing below the entry height read.

import (
	"fmt"
	"sort"
	"strings"
)

type opEffect struct {
	pops, pushes int
	dyn          string
	scopes       int
	operand      string
	known        bool
}

func opEffects(w *World) map[string]*opEffect {
	out := map[string]*opEffect{}
	ct := w.Contracts["vm.VM.Run"]
	if ct == nil {
		return out
	}
	for name, cls := range ct.Cases {
		ef := &opEffect{}
		for _, c := range cls {
			kw, _, ex := splitCaseClause(c.Expr)
			switch kw {
			case "stack":
				fmt.Sscanf(ex, "-%d +%d", &ef.pops, &ef.pushes)
				ef.known = true
			case "stack-dyn":
				ef.dyn = strings.TrimSpace(ex)
				ef.pushes = 1
				ef.known = true
			case "scopes":
				fmt.Sscanf(ex, "%d", &ef.scopes)
			case "operand":
				ef.operand = strings.TrimSpace(ex)
			}
		}
		if ef.known {
			out[name] = ef
		}
	}
	return out
}

type absState struct {
	h      *Term
	top    []*Term // known values of the topmost entries (nil = unknown value)
	scopes []map[string]*Term
	depth  int
	extra  []*Term
	loops  map[int]*absLoop
}

type absLoop struct {
	h0    *Term
	f     string
	depth int
}

func (a *absState) clone() *absState {
	n := &absState{h: a.h, top: append([]*Term(nil), a.top...), depth: a.depth, extra: append([]*Term(nil), a.extra...), loops: map[int]*absLoop{}}
	for _, s := range a.scopes {
		m := map[string]*Term{}
		for k, v := range s {
			m[k] = v
		}
		n.scopes = append(n.scopes, m)
	}
	for k, v := range a.loops {
		n.loops[k] = v
	}
	return n
}

func (a *absState) push(v *Term) {
	a.h = BVBin("bvadd", a.h, BV64(1))
	a.top = append(a.top, v)
}
func (a *absState) pop() *Term {
	a.h = BVBin("bvsub", a.h, BV64(1))
	if len(a.top) > 0 {
		v := a.top[len(a.top)-1]
		a.top = a.top[:len(a.top)-1]
		return v
	}
	return nil
}
func (a *absState) scopeVar(k string) *Term {
	if len(a.scopes) == 0 {
		return nil
	}
	return a.scopes[len(a.scopes)-1][k]
}

func constStr(it tItem) (string, bool) {
	if it.Const != nil && ctorOf(it.Const) == "VStr" && strLits[it.Const.Args[0]] {
		return strLitText[it.Const.Args[0]], true
	}
	return "", false
}

// traceLabel: operator / builtin name chosen on this path, if any.
func traceLabel(t *tTrace) string {
	for _, p := range t.PC {
		if p.Op == "=" {
			for _, a := range p.Args {
				if strLits[a] {
					return strLitText[a]
				}
			}
		}
	}
	return ""
}

// traceName: obligations are named by node method and, where the method
// switches on an operator or builtin name, that name; all emission paths of
// the method share the name (one VC each), so that a harmless change of the
// emitted sequence does not rename obligations.
func traceName(tr *tTrace, label string) string {
	name := "tmpl:" + tr.Method
	if label != "" {
		name += "[" + strings.ReplaceAll(label, " ", "-") + "]"
	}
	return name
}

func checkTemplates(w *World, e *Exec, traces []*tTrace) {
	eff := opEffects(w)
	cct := w.Contracts["compiler.compiler.BuiltinNode"]
	loopHeight := func(label string) string {
		if cct != nil {
			for _, c := range cct.Cases[label] {
				kw, _, ex := splitCaseClause(c.Expr)
				if kw == "loop-height" {
					return strings.TrimSpace(ex)
				}
			}
		}
		return "0"
	}
	seenName := map[string]int{}
	for _, tr := range traces {
		if tr.Panics {
			continue // a failing compilation (reported as a compile error): no program is produced
		}
		label := traceLabel(tr)
		name := traceName(tr, label)
		seenName[name]++
		st := tr.St
		add := func(clause string, extra []*Term, goal *Term, desc string) {
			s2 := st.Clone()
			for _, x := range extra {
				s2.Assume(x)
			}
			e.AddVC(name+"/"+clause, "tmpl", "compiler."+tr.Method, s2, Not(goal), desc+" [emission path "+tr.Sig+"]")
		}
		if tr.Failed != "" {
			add("extract", nil, False, "the emission of this path could not be abstracted: "+tr.Failed)
			continue
		}
		items := tr.Items
		// jump tables
		patchOf := map[int]int{}
		for i, it := range items {
			if it.Kind == "patch" {
				patchOf[it.Ref] = i
			}
		}
		backTarget := map[int]int{}
		heads := map[int]bool{}
		okJumps := True
		for i, it := range items {
			if it.Kind != "emit" {
				continue
			}
			switch it.Operand {
			case "ph":
				if _, ok := patchOf[i]; !ok {
					okJumps = False
				}
			case "back":
				found := -1
				for j := 0; j < i; j++ {
					if items[j].Pos == it.To && items[j].Kind != "patch" {
						found = j
						break
					}
				}
				if found < 0 {
					okJumps = False
				} else {
					backTarget[i] = found
					heads[found] = true
				}
			}
		}
		add("jumps", nil, okJumps, "every placeholder is patched exactly once inside the segment and every backward jump targets the first byte of an instruction of the segment")
		// operand kinds
		okOps := True
		why := ""
		for _, it := range items {
			if it.Kind != "emit" {
				continue
			}
			ef := eff[it.OpName]
			if ef == nil {
				okOps, why = False, "opcode "+it.OpName+" has no effect clause in VM.Run's contract"
				continue
			}
			want := ef.operand
			got := it.Operand
			switch {
			case want == "none" && got == "":
			case want == "const" && got == "const":
				// constants that the case body type-asserts
				switch it.OpName {
				case "OpStore", "OpLoad", "OpInc", "OpFetchMap":
					if it.ConstT != "string" {
						okOps, why = False, it.OpName+" needs a string constant, got "+it.ConstT
					}
				case "OpCall", "OpCallFast", "OpMethod", "OpMethodNilSafe":
					if it.ConstT != "vm.Call" {
						okOps, why = False, it.OpName+" needs a vm.Call constant, got "+it.ConstT
					}
				case "OpMatchesConst":
					if it.ConstT != "*regexp.Regexp" {
						okOps, why = False, it.OpName+" needs a *regexp.Regexp constant, got "+it.ConstT
					}
				}
			case want == "jump" && got == "ph":
			case want == "back" && got == "back":
			case want == "cast" && got == "cast":
				if it.Raw == nil || it.Raw.BV == nil || it.Raw.BV.Int64() > 1 {
					okOps, why = False, "OpCast operand must be 0 or 1"
				}
			default:
				okOps, why = False, fmt.Sprintf("%s expects operand kind %q, the compiler emits %q", it.OpName, want, got)
			}
		}
		add("operand-kinds", nil, okOps, "each opcode gets the operand kind its case in VM.Run reads"+why)
		// abstract execution
		lh := loopHeight(label)
		expected := int64(1)
		if tr.Method == "PairNode" {
			expected = 2
		}
		var run func(i int, a *absState, fuel int)
		run = func(i int, a *absState, fuel int) {
			for ; i < len(items); i++ {
				if fuel <= 0 {
					add("stack-balance", a.extra, False, "abstract execution did not terminate")
					return
				}
				fuel--
				it := items[i]
				if heads[i] {
					if lp := a.loops[i]; lp == nil {
						// first arrival: invariant cut. height == h0 + f(i, count)
						size := a.scopeVar("size")
						iv, cv := a.scopeVar("i"), a.scopeVar("count")
						fval := func(iv, cv *Term) *Term {
							switch lh {
							case "i":
								return iv
							case "count":
								return cv
							}
							return BV64(0)
						}
						if size == nil || iv == nil || (lh == "count" && cv == nil) {
							add("loop-height", a.extra, False, "loop variables are not initialised when the loop is entered")
							return
						}
						add("loop-height", a.extra, Eq(fval(iv, cv), BV64(0)), "loop entry: the height invariant holds initially")
						add("loop-counter", a.extra, And(BVCmp("bvsge", iv, BV64(0)), BVCmp("bvsle", iv, size)), "loop entry: 0 <= i <= size")
						ni := Fresh("i", SBV(64))
						a.extra = append(a.extra, BVCmp("bvsge", ni, BV64(0)), BVCmp("bvsle", ni, size))
						a.scopes[len(a.scopes)-1]["i"] = ni
						var nc *Term
						if cv != nil {
							nc = Fresh("count", SBV(64))
							a.extra = append(a.extra, BVCmp("bvsge", nc, BV64(0)), BVCmp("bvsle", nc, ni))
							a.scopes[len(a.scopes)-1]["count"] = nc
						}
						a.loops[i] = &absLoop{h0: a.h, f: lh, depth: a.depth}
						a.h = BVBin("bvadd", a.h, fval(ni, nc))
						a.top = nil
					}
				}
				switch it.Kind {
				case "patch":
					continue
				case "seg":
					a.push(nil)
					continue
				case "rep":
					n := it.N
					if tr.Method == "MapNode" {
						n = BVBin("bvadd", n, n)
					}
					a.h = BVBin("bvadd", a.h, n)
					a.top = nil
					continue
				}
				ef := eff[it.OpName]
				if ef == nil {
					return
				}
				key, _ := constStr(it)
				// dynamic pops
				if ef.dyn != "" {
					var n *Term
					switch ef.dyn {
					case "call.Size", "call.Size + 1":
						if it.Const != nil && ctorOf(it.Const) == "VBox" {
							n = st.Load(LocField(it.Const.Args[1], 1), SBV(64))
						}
						if n != nil && ef.dyn == "call.Size + 1" {
							n = BVBin("bvadd", n, BV64(1))
						}
					case "size + 1", "2*size + 1":
						if len(a.top) > 0 && a.top[len(a.top)-1] != nil {
							n = a.top[len(a.top)-1]
							if ef.dyn == "2*size + 1" {
								n = BVBin("bvadd", n, n)
							}
							n = BVBin("bvadd", n, BV64(1))
						}
					}
					if n == nil {
						add("no-underflow", a.extra, False, it.OpName+": the number of popped values is not determined by the emitted code")
						return
					}
					add("no-underflow", a.extra, And(BVCmp("bvsge", n, BV64(0)), BVCmp("bvsge", a.h, n)), it.OpName+" pops only values pushed by this segment")
					a.h = BVBin("bvsub", a.h, n)
					a.top = nil
					a.push(nil)
					continue
				}
				// peeks
				peek := 0
				switch it.OpName {
				case "OpJumpIfTrue", "OpJumpIfFalse", "OpLen":
					peek = 1
				}
				need := ef.pops
				if peek > need {
					need = peek
				}
				if need > 0 {
					add("no-underflow", a.extra, BVCmp("bvsge", a.h, BV64(int64(need))), it.OpName+" reads only values pushed by this segment")
				}
				switch it.OpName {
				case "OpJump":
					i = patchOf[i]
					continue
				case "OpJumpIfTrue", "OpJumpIfFalse":
					var t *Term
					if len(a.top) > 0 {
						t = a.top[len(a.top)-1]
					}
					jt := it.OpName == "OpJumpIfTrue"
					b := a.clone()
					if t != nil {
						if jt {
							b.extra = append(b.extra, t)
							a.extra = append(a.extra, Not(t))
						} else {
							b.extra = append(b.extra, Not(t))
							a.extra = append(a.extra, t)
						}
					}
					run(patchOf[i]+1, b, fuel)
					continue
				case "OpJumpBackward":
					tgt := backTarget[i]
					lp := a.loops[tgt]
					if lp == nil {
						add("loop-height", a.extra, False, "backward jump to a point that was not reached before")
						return
					}
					iv, cv := a.scopeVar("i"), a.scopeVar("count")
					var f *Term = BV64(0)
					switch lp.f {
					case "i":
						f = iv
					case "count":
						f = cv
					}
					size := a.scopeVar("size")
					if f == nil || iv == nil || size == nil {
						add("loop-height", a.extra, False, "loop variables lost inside the loop body")
						return
					}
					add("loop-height", a.extra, Eq(a.h, BVBin("bvadd", lp.h0, f)), "loop body preserves: height == height at loop entry + "+lp.f)
					g := And(BVCmp("bvsge", iv, BV64(0)), BVCmp("bvsle", iv, size))
					if cv != nil {
						g = And(g, BVCmp("bvsge", cv, BV64(0)), BVCmp("bvsle", cv, iv))
					}
					add("loop-counter", a.extra, g, "loop body preserves 0 <= i <= size (and 0 <= count <= i)")
					add("scopes-balance", a.extra, Bool(a.depth == lp.depth), "loop body leaves the scope depth unchanged")
					return
				case "OpPush":
					var v *Term
					if it.Const != nil && ctorOf(it.Const) == "VInt" {
						v = it.Const.Args[0]
					}
					a.push(v)
				case "OpLen":
					l := Fresh("len", SBV(64))
					a.extra = append(a.extra, BVCmp("bvsge", l, BV64(0)), BVCmp("bvslt", l, BV64(1<<47)))
					a.push(l)
				case "OpStore":
					v := a.pop()
					if len(a.scopes) > 0 {
						if v == nil {
							v = Fresh("stored", SBV(64))
						}
						if v.Sort == SBV(64) {
							a.scopes[len(a.scopes)-1][key] = v
						}
					}
				case "OpLoad":
					a.push(a.scopeVar(key))
				case "OpInc":
					if v := a.scopeVar(key); v != nil {
						a.scopes[len(a.scopes)-1][key] = BVBin("bvadd", v, BV64(1))
					}
				case "OpLess":
					y, x := a.pop(), a.pop()
					if x != nil && y != nil && x.Sort == SBV(64) && y.Sort == SBV(64) {
						a.push(BVCmp("bvslt", x, y))
					} else {
						a.push(nil)
					}
				case "OpNot":
					v := a.pop()
					if v != nil && v.Sort == SBool {
						a.push(Not(v))
					} else {
						a.push(nil)
					}
				case "OpTrue":
					a.push(True)
				case "OpFalse":
					a.push(False)
				case "OpRot":
					y, x := a.pop(), a.pop()
					a.push(y)
					a.push(x)
				case "OpBegin":
					a.scopes = append(a.scopes, map[string]*Term{})
					a.depth++
				case "OpEnd":
					if a.depth <= 0 {
						add("scopes-balance", a.extra, False, "OpEnd closes a scope this segment did not open")
						return
					}
					a.scopes = a.scopes[:len(a.scopes)-1]
					a.depth--
				default:
					for k := 0; k < ef.pops; k++ {
						a.pop()
					}
					for k := 0; k < ef.pushes; k++ {
						a.push(nil)
					}
				}
			}
			// end of segment
			add("stack-balance", a.extra, Eq(a.h, BV64(expected)), fmt.Sprintf("the segment leaves exactly %d value(s) above the entry height on every path", expected))
			add("scopes-balance", a.extra, Bool(a.depth == 0), "every scope opened by the segment is closed on every path")
		}
		run(0, &absState{h: BV64(0), loops: map[int]*absLoop{}}, 4000)
	}
	_ = sort.Strings
}

func genTemplates(w *World) ([]*Obligation, []string) {
	e := NewExec(w)
	trs := extractTemplates(w, e)
	checkTemplates(w, e, trs)
	checkTemplateValues(w, e, trs)
	checkBuiltinLoops(w, e, trs)
	return e.obls, e.Notes()
}

func init() {
	registerProp(&propDef{id: "T06", level: "other", gen: func(w *World, res *CheckResult) {
		obls, notes := genTemplates(w)
		res.Obls = append(res.Obls, obls...)
		res.Assumptions = append(res.Assumptions, notes...)
	}, expl: "template logic (development view)"})
}
