#!/bin/sh
# builds the engine from vendored sources only (offline)
set -e
cd "$(dirname "$0")/engine"
mkdir -p ../bin
GOFLAGS=-mod=vendor GOPROXY=off GOSUMDB=off GOTOOLCHAIN=local go build -o ../bin/verif-engine .
echo built
