#!/usr/bin/env python3
"""debug helper: unsat core of a dumped (single-VC) script: tools/core.py file.smt2 [max]"""
import sys, subprocess, re
f = sys.argv[1]
mx = int(sys.argv[2]) if len(sys.argv) > 2 else 14
lines = open(f).read().split('\n')
out, al = [], []
for l in lines:
    if l.startswith('(push') or l.startswith('(pop') or l.startswith('(echo') or l.startswith('(set-option :timeout'):
        continue
    if l.startswith('(assert'):
        out.append('(assert (! %s :named a%d))' % (l[len('(assert '):-1], len(al)))
        al.append(l)
    elif l.startswith('(check-sat'):
        pass
    else:
        out.append(l)
out.append('(check-sat)\n(get-unsat-core)')
open('/tmp/core.smt2', 'w').write('(set-option :produce-unsat-cores true)\n' + '\n'.join(out))
r = subprocess.run(['z3-new', '-T:60', '/tmp/core.smt2'], capture_output=True, text=True).stdout
print(r[:200])
parts = r.split('\n')
core = re.findall(r'a(\d+)', parts[1]) if len(parts) > 1 else []
defs = {}
for l in lines:
    m = re.match(r'\(define-fun (\$t\d+) \(\) (.*)\)$', l)
    if m:
        defs[m.group(1)] = m.group(2)
for c in core[:mx]:
    s = al[int(c)]
    print(c, s[:300])
